//! C12: MBC register protocol through the bus. One case per line:
//! c12 type=T rom=R ram=M ws=a:v;a:v;... | rb=<rom bank after each write> mb=<ram bank ...> r0=<byte at 0x0000> r4=<byte at 0x4000> ra=<byte at 0xA000> f0=/f4=<first byte of the instruction-fetch slice at 0x0000 / 0x4000>
use crate::mem::{memory_read_byte, memory_write_byte, MemoryAreas};
use crate::roms::*;
use crate::util::{Opts, Rng};
use std::io::Write;

fn gen_write(rng: &mut Rng) -> (u16, u8) {
  let addr = match rng.below(8) {
    0 => *rng.pick(&[0x0000u16, 0x1fff, 0x2000, 0x3fff, 0x4000, 0x5fff, 0x6000, 0x7fff]),
    1 | 2 => 0x2000 + rng.below(0x2000) as u16,
    3 => 0x4000 + rng.below(0x2000) as u16,
    4 => 0x6000 + rng.below(0x2000) as u16,
    _ => rng.below(0x8000) as u16,
  };
  let value = match rng.below(6) {
    0 => *rng.pick(&[0u8, 1, 2, 3, 4, 0x0a, 0x1f, 0x20, 0x21, 0x3f, 0x40, 0x60, 0x7f, 0x80, 0xe0, 0xff]),
    1 => rng.below(4) as u8,
    2 => rng.below(32) as u8,
    _ => rng.u8(),
  };
  (addr, value)
}

pub fn run(_sub: &str, opts: &Opts, w: &mut dyn Write) {
  let mut rng = Rng::new(opts.seed ^ 0xc12);
  let per_cfg = if opts.thorough { 400 } else { 6 };
  let len = if opts.thorough { 40 } else { 24 };
  for &t in TYPES.iter() { for &r in ROM_CODES.iter() { for &m in RAM_CODES.iter() {
    let mut mem = mk_mem(t, r, m, &[]);
    // tag every 8 KiB RAM bank with its index + 1
    let banks = mem.cart_ram.len() / 0x2000;
    for b in 0..banks { mem.cart_ram[b * 0x2000] = (b + 1) as u8; }
    if banks == 0 && mem.cart_ram.len() > 0 { mem.cart_ram[0] = 1; }
    let p = &mut mem as *mut MemoryAreas;
    for _ in 0..per_cfg {
      // reset the controller registers to power-on values through the protocol itself is not possible,
      // so each case starts from a fresh cart state
      mem.cart_state = header(t, r, m).create_cart_state();
      let n = 1 + rng.below(len) as usize;
      let mut ws = Vec::new(); let mut rb = Vec::new(); let mut mb = Vec::new();
      let mut r0 = Vec::new(); let mut r4 = Vec::new(); let mut ra = Vec::new(); let mut f4 = Vec::new(); let mut f0 = Vec::new();
      for _ in 0..n {
        let (a, v) = gen_write(&mut rng);
        memory_write_byte(p, a, v);
        ws.push(format!("{}:{}", a, v));
        rb.push(mem.cart_state.get_rom_bank().to_string());
        mb.push(mem.cart_state.get_ram_bank().to_string());
        r0.push(memory_read_byte(p, 0x0000).to_string());
        r4.push(memory_read_byte(p, 0x4000).to_string());
        ra.push(memory_read_byte(p, 0xa000).to_string());
        // what the CPU would EXECUTE there: the instruction-fetch view of the same two windows
        f4.push(crate::mem::get_executable_memory_slice(0x4000, p as *const MemoryAreas)[0].to_string());
        f0.push(crate::mem::get_executable_memory_slice(0x0000, p as *const MemoryAreas)[0].to_string());
      }
      writeln!(w, "c12 type={} rom={} ram={} banks={} ramb={} ws={} | rb={} mb={} r0={} r4={} ra={} f0={} f4={}", t, r, m, rom_bank_count(r), header(t, r, m).get_ram_size_bytes(), ws.join(";"),
        rb.join(","), mb.join(","), r0.join(","), r4.join(","), ra.join(","), f0.join(","), f4.join(",")).unwrap();
    }
  }}}
}
