//! C12 correspondence streams (stub).
use crate::util::Opts;
use std::io::Write;

pub fn run(sub: &str, _opts: &Opts, _w: &mut dyn Write) {
  eprintln!("stream c12.{} not implemented", sub);
  std::process::exit(2);
}
