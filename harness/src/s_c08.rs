//! C08 / C09 (instruction-stepped): every sequence over {EI, DI, RETI, HALT, STOP, NOP, LDH (0F),A, LDH (FF),A}
//! up to a bounded length, from every master-enable / run state and pending pattern, through `Core::update`
//! (non-jit build: one instruction per step). After every step: IME, run state, PC, SP, IF, IE, and the clocks the
//! timer has received (divider hook).
//! c08 seq=<idx,...> ime= run= if= ie= a= steps= | t=<ime,run,pc,sp,if,ie,div per step ; ...>
use crate::devices::interrupts::InterruptFlag;
use crate::emulator::{InterruptState, RunState};
use crate::mem::{memory_read_byte, memory_write_byte, MemoryAreas};
use crate::roms::*;
use crate::util::{Opts, Rng};
use std::io::Write;

pub const ALPHA: [&[u8]; 8] = [&[0xfb], &[0xf3], &[0xd9], &[0x76], &[0x10, 0x00], &[0x00], &[0xe0, 0x0f], &[0xe0, 0xff]];

fn ime_of(k: u32) -> InterruptState { match k { 0 => InterruptState::Enabled, 1 => InterruptState::Disabled, _ => InterruptState::EnableNext } }
fn ime_code(s: &InterruptState) -> u32 { match s { InterruptState::Enabled => 0, InterruptState::Disabled => 1, InterruptState::EnableNext => 2 } }
fn run_of(k: u32) -> RunState { match k { 0 => RunState::Run, 1 => RunState::Stop, _ => RunState::Halt } }
fn run_code(s: &RunState) -> u32 { match s { RunState::Run => 0, RunState::Stop => 1, RunState::Halt => 2 } }

pub fn run_seq(seq: &[usize], ime: u32, run: u32, ifl: u8, ie: u8, a: u8, w: &mut dyn Write) {
  let mut core = mk_core(0x03, 1, 3);
  for i in 0..0x100 { core.memory.rom[i] = 0x00; }           // interrupt vectors and reset area: NOP sled
  let p = &mut core.memory as *mut MemoryAreas;
  let mut addr = 0xc000u16;
  for &k in seq { for &b in ALPHA[k] { memory_write_byte(p, addr, b); addr += 1; } }
  // RETI targets: the stack holds 0xC100 repeatedly (a NOP sled in WRAM, which is zero-filled)
  let mut sp = 0xdff0u16;
  for _ in 0..8 { memory_write_byte(p, sp, 0x00); memory_write_byte(p, sp.wrapping_add(1), 0xc1); sp = sp.wrapping_add(2); }
  core.registers.sp = 0xdff0; core.registers.ip = 0xc000; core.registers.af = (a as u32) << 8;
  core.memory.io.interrupt_flag = InterruptFlag::new(ifl);
  core.memory.io.interrupt_mask = ie;
  core.interrupts_enabled = ime_of(ime);
  core.run_state = run_of(run);
  let steps = seq.len() + 3;
  let mut t: Vec<String> = Vec::new();
  for _ in 0..steps {
    core.update();
    let div = core.memory.io.timer.verif_state().0;
    t.push(format!("{},{},{},{},{},{},{}", ime_code(&core.interrupts_enabled), run_code(&core.run_state), { core.registers.ip },
      { core.registers.sp }, core.memory.io.interrupt_flag.as_u8(), memory_read_byte(p, 0xffff), div));
  }
  let sq: Vec<String> = seq.iter().map(|k| k.to_string()).collect();
  writeln!(w, "c08 seq={} ime={} run={} if={} ie={} a={} steps={} | t={}", sq.join(","), ime, run, ifl, ie, a, steps, t.join(";")).unwrap();
}

pub fn run(_sub: &str, opts: &Opts, w: &mut dyn Write) {
  let (shard, nshards) = opts.shard();
  let maxlen = if opts.thorough { 5 } else { 3 };
  let mut rng = Rng::new(opts.seed ^ 0xc08);
  let mut idx = 0usize;
  // all sequences up to maxlen
  let mut seqs: Vec<Vec<usize>> = vec![vec![]];
  let mut frontier: Vec<Vec<usize>> = vec![vec![]];
  for _ in 0..maxlen {
    let mut next = Vec::new();
    for s in frontier.iter() { for k in 0..8 { let mut t = s.clone(); t.push(k); next.push(t); } }
    seqs.extend(next.iter().cloned());
    frontier = next;
  }
  let pend: [(u8, u8); 4] = [(0, 0), (4, 0), (0, 4), (4, 4)];
  for s in seqs.iter() { for ime in 0..3u32 { for run in 0..3u32 { for &(ifl, ie) in pend.iter() {
    idx += 1;
    if idx % nshards != shard { continue; }
    // A selects what the LDH instructions write: the timer bit, the vblank bit, or nothing
    let a = *rng.pick(&[0x04u8, 0x04, 0x01, 0x00, 0x05, 0xe4, 0xe0, 0xff]);   // 0xe0 bits: the unconnected upper bits of IF / IE
    run_seq(s, ime, run, ifl, ie, a, w);
  }}}}
  // random longer sequences
  let n = if opts.thorough { 20000 } else { 500 };
  for _ in 0..n {
    idx += 1;
    let len = 4 + rng.below(9) as usize;
    let s: Vec<usize> = (0..len).map(|_| rng.below(8) as usize).collect();
    let (ime, run) = (rng.below(3) as u32, rng.below(3) as u32);
    let &(ifl, ie) = rng.pick(&pend);
    let a = *rng.pick(&[0x04u8, 0x01, 0x00, 0x1f, 0xe0, 0xe4, 0xff]);
    if idx % nshards != shard { continue; }
    run_seq(&s, ime, run, ifl, ie, a, w);
  }
}
