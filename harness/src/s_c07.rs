//! C07: `Core::handle_interrupt` on all 32x32 IF/IE values x 3 master-enable states x 3 run states x boundary SPs.
//! c07 if= ie= ieu= ime= run= sp= ip= | if= ie= ime= run= sp= ip= cy= p1= p2= small= rb=
use crate::devices::interrupts::InterruptFlag;
use crate::emulator::{Core, InterruptState, RunState};
use crate::mem::{memory_read_byte, MemoryAreas};
use crate::roms::*;
use crate::util::{Opts, Rng};
use std::io::Write;

const SPS: [u16; 42] = [0xff08, 0xff43, 0x0000, 0x0001, 0x0002, 0x2000, 0x2001, 0x4000, 0x4001, 0x6001, 0x7fff, 0x8000, 0x8001, 0x9fff, 0xa000, 0xa001,
  0xbfff, 0xc000, 0xc001, 0xc002, 0xcfff, 0xd000, 0xd001, 0xdfff, 0xe000, 0xe001, 0xfe00, 0xfe01, 0xfea0, 0xfea1, 0xff00, 0xff0f, 0xff10,
  0xff11, 0xff46, 0xff47, 0xff80, 0xff81, 0xfffe, 0xffff, 0xff42, 0xfff0];

fn ime_of(k: u32) -> InterruptState { match k { 0 => InterruptState::Enabled, 1 => InterruptState::Disabled, _ => InterruptState::EnableNext } }
fn ime_code(s: &InterruptState) -> u32 { match s { InterruptState::Enabled => 0, InterruptState::Disabled => 1, InterruptState::EnableNext => 2 } }
fn run_of(k: u32) -> RunState { match k { 0 => RunState::Run, 1 => RunState::Stop, _ => RunState::Halt } }
fn run_code(s: &RunState) -> u32 { match s { RunState::Run => 0, RunState::Stop => 1, RunState::Halt => 2 } }

pub fn run(_sub: &str, opts: &Opts, w: &mut dyn Write) {
  let mut rng = Rng::new(opts.seed ^ 0xc07);
  let (shard, nshards) = opts.shard();
  let mut sps: Vec<u16> = SPS.to_vec();
  if opts.thorough { for _ in 0..360 { sps.push(rng.u16()); } }
  let mut core = mk_core(0x03, 1, 3);
  let mut idx = 0usize;
  for &sp in sps.iter() { for ime in 0..3u32 { for run in 0..3u32 {
    idx += 1;
    if idx % nshards != shard { continue; }
    for ifl in 0..32u8 { for ie in 0..32u8 {
      // PC values whose bytes matter when the push lands on a register: 0x90 = LY at power-on (LYC), 0x40 = STAT's LYC enable
      let ip: u16 = match (ifl as u32 + 3 * ie as u32) % 6 { 0 => 0x0000, 1 => 0xffff, 2 => 0x1234, 3 => 0xabcd, 4 => 0x9040, _ => 0x4090 };
      // device state in which a register write has a side effect on IF: LYC = LY with / without the STAT LYC enable
      let (lyc, st): (u8, u8) = match idx % 3 { 0 => (0, 0), 1 => (144, 0x40), _ => (144, 0) };
      { let p = &mut core.memory as *mut MemoryAreas; crate::mem::memory_write_byte(p, 0xff41, st); crate::mem::memory_write_byte(p, 0xff45, lyc); }
      let ieu: u8 = if ifl & 1 == 1 { 0xe0 } else { 0 };
      core.memory.io.interrupt_flag = InterruptFlag::new(ifl);
      core.memory.io.interrupt_mask = ie;
      core.memory.io.interrupt_mask_upper = ieu;
      core.interrupts_enabled = ime_of(ime);
      core.run_state = run_of(run);
      core.registers.sp = sp as u32;
      core.registers.ip = ip as u32;
      core.registers.cycles = 0;
      let p = &mut core.memory as *mut MemoryAreas;
      let (a1, a2) = (sp.wrapping_sub(1), sp.wrapping_sub(2));
      let plain = |a: u16| (0x8000..0xe000).contains(&a) || (0xfe00..0xfea0).contains(&a) || (0xff80..0xffff).contains(&a);
      let (o1, o2) = (memory_read_byte(p, a1), memory_read_byte(p, a2));
      core.handle_interrupt();
      let (sp2, ip2, cy) = (core.registers.sp, core.registers.ip, core.registers.cycles);
      let small = crate::cpucase::small_digest(p);
      writeln!(w, "c07 if={} ie={} ieu={} ime={} run={} sp={} ip={} lyc={} st={} | if={} ie={} ime={} run={} sp={} ip={} cy={} p1={} p2={} small={} rb={}",
        ifl, ie, ieu, ime, run, sp, ip, lyc, st,
        core.memory.io.interrupt_flag.as_u8(), memory_read_byte(p, 0xffff), ime_code(&core.interrupts_enabled), run_code(&core.run_state),
        sp2, ip2, cy, memory_read_byte(p, sp.wrapping_sub(1)), memory_read_byte(p, sp.wrapping_sub(2)), small,
        core.memory.cart_state.get_rom_bank()).unwrap();
      // undo what the pushes did so that every case starts from the same machine
      if cy != 0 {
        if plain(a1) && plain(a2) {
          crate::mem::memory_write_byte(p, a2, o2);
          crate::mem::memory_write_byte(p, a1, o1);
        } else {
          core = mk_core(0x03, 1, 3);
        }
      }
    }}
  }}}
}
