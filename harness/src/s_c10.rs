//! C10: bus decode. After every write of a generated history the whole 64 KiB read image is digested per region.
//! c10 type=T rom=R ram=M hx=<other header bytes set, offset:value;... or -> hist=a:v;... (a = 65536: let 64*v clocks pass) | d=<12 window digests> io=<hex of 0xFF00..0xFF7F> fd=<digest of fetch view> rd=<digest of reads at the same addresses> fe=<digest of the fetch view over the echo aliases>
use crate::mem::{get_executable_memory_slice, memory_read_byte, memory_write_byte, MemoryAreas};
use crate::roms::*;
use crate::util::{hex, Opts, Rng};
use std::io::Write;

pub const WINDOWS: [(usize, usize); 12] = [
  (0x0000, 0x4000), (0x4000, 0x8000), (0x8000, 0xa000), (0xa000, 0xc000), (0xc000, 0xd000), (0xd000, 0xe000),
  (0xe000, 0xfe00), (0xfe00, 0xfea0), (0xfea0, 0xff00), (0xff00, 0xff80), (0xff80, 0xffff), (0xffff, 0x10000),
];

pub fn image_digests(p: *mut MemoryAreas) -> (Vec<u64>, Vec<u8>) {
  let mut ds = Vec::new();
  let mut io = Vec::new();
  for (lo, hi) in WINDOWS.iter() {
    let mut h = FNV0;
    for a in *lo..*hi {
      let b = memory_read_byte(p, a as u16);
      h = fnv(h, b);
      if *lo == 0xff00 { io.push(b); }
    }
    ds.push(h);
  }
  (ds, io)
}

fn fetch_digests(p: *mut MemoryAreas) -> (u64, u64) {
  // fetch view vs data reads over ROM, work RAM and high RAM (every 7th address + region edges)
  let mut hf = FNV0; let mut hr = FNV0;
  let mut addrs: Vec<usize> = Vec::new();
  let mut a = 0usize;
  while a < 0x8000 { addrs.push(a); a += 7; }
  a = 0xc000; while a < 0xe000 { addrs.push(a); a += 3; }
  for a in 0xff80..0xffff { addrs.push(a); }
  for e in [0x3ffdusize, 0x3ffe, 0x3fff, 0x4000, 0x7ffd, 0x7ffe, 0x7fff, 0xcffd, 0xcffe, 0xcfff, 0xd000, 0xdffe, 0xdfff] { addrs.push(e); }
  for a in addrs {
    // the (up to three) bytes the slice hands to the decoder, against data reads of the same addresses
    let s = get_executable_memory_slice(a, p);
    let n = s.len().min(3);
    hf = fnv(hf, n as u8);
    hr = fnv(hr, n as u8);
    for k in 0..n {
      hf = fnv(hf, s[k]);
      hr = fnv(hr, memory_read_byte(p, (a + k) as u16));
    }
  }
  (hf, hr)
}

/// fetch view over the echo aliases 0xE000-0xFE9F (they execute from work RAM although data reads return 0):
/// every 5th address + edges; ties the model's `fetchByte` there
fn fetch_echo_digest(p: *mut MemoryAreas) -> u64 {
  let mut h = FNV0;
  let mut addrs: Vec<usize> = Vec::new();
  let mut a = 0xe000usize;
  while a < 0xfea0 { addrs.push(a); a += 5; }
  for e in [0xefffusize, 0xf000, 0xfdff, 0xfe00, 0xfe9f] { addrs.push(e); }
  for a in addrs {
    let s = get_executable_memory_slice(a, p);
    let n = s.len().min(3);
    h = fnv(h, n as u8);
    for k in 0..n { h = fnv(h, s[k]); }
  }
  h
}

pub fn gen_write(rng: &mut Rng) -> (u16, u8) {
  let addr = match rng.below(10) {
    0 | 1 | 2 => *rng.pick(&BOUNDARY),
    3 => rng.below(0x8000) as u16,
    4 => *rng.pick(&[0x2000u16, 0x2100, 0x3000, 0x4000, 0x5000, 0x6000, 0x7000, 0x0000]),
    5 => 0x8000 + rng.below(0x2000) as u16,
    6 => 0xa000 + rng.below(0x2000) as u16,
    7 => 0xc000 + rng.below(0x2000) as u16,
    8 => 0xfe00 + rng.below(0x200) as u16,
    _ => rng.u16(),
  };
  let value = match rng.below(4) {
    0 => *rng.pick(&[0u8, 1, 2, 3, 0x0a, 0x10, 0x1f, 0x20, 0x30, 0x40, 0x7f, 0x80, 0x90, 0xe0, 0xff]),
    _ => rng.u8(),
  };
  (addr, value)
}

pub fn run(_sub: &str, opts: &Opts, w: &mut dyn Write) {
  let mut rng = Rng::new(opts.seed ^ 0xc10);
  let (shard, nshards) = opts.shard();
  let cases = if opts.thorough { 1500 } else { 40 };
  let cfgs: Vec<(u8, u8, u8)> = vec![
    (0x00, 0, 0), (0x00, 0, 2), (0x01, 1, 0), (0x02, 2, 1), (0x03, 4, 3), (0x03, 5, 2), (0x01, 6, 0), (0x11, 3, 3),
    (0x13, 6, 3), (0x12, 0x52, 2), (0x13, 7, 4), (0x03, 8, 5), (0x11, 0x54, 0), (0x02, 0x53, 3),
  ];
  let mut idx = 0usize;
  for &(t, r, m) in cfgs.iter() {
    for _ in 0..cases {
      idx += 1;
      let n = 1 + rng.below(12) as usize;
      // one write in six is a 16-bit write through memory_write_word (value = v * 257 + 1, low byte first), the rest byte writes
      // one operation in six lets time pass (pseudo-address 65536: run_clock_cycles(64 * v) - up to 16320 clocks, i.e. through
      // VBlank into the drawn lines and all LCD modes): what was stored must still be there, whatever the devices are doing
      let hist: Vec<(u32, u8, bool)> = (0..n).map(|_| { let (a, v) = gen_write(&mut rng); let word = rng.chance(1, 6);
        let a = if word && rng.chance(1, 3) { *rng.pick(&[0xdfffu16, 0xcfff, 0x9fff, 0xbfff, 0xfe9f, 0xfffe, 0xffff, 0x7fff, 0xfdff, 0xff7f]) } else { a };
        if rng.chance(1, 6) { (65536u32, *rng.pick(&[1u8, 7, 71, 72, 73, 74, 75, 76, 80, 100, 150, 255]), false) } else { (a as u32, v, word) } }).collect();
      // one history in eight is about the timer's reload: DIV reset, TMA, TIMA a few ticks below overflow, TAC, exactly the
      // clocks up to the overflow (pseudo-address 65537: run_clock_cycles(4 * v)), then a TIMA write that must read back
      let hist: Vec<(u32, u8, bool)> = if rng.chance(1, 8) {
        let tac = *rng.pick(&[5u8, 6, 7, 4]);
        let period: u32 = match tac { 5 => 16, 6 => 64, 7 => 256, _ => 1024 };
        let k = rng.below(3) as u32;
        let clocks = period * (k + 1) + 4 * *rng.pick(&[0u32, 0, 0, 1, 2]);
        let mut h = vec![(0xff04u32, 0u8, false), (0xff06, rng.u8(), false), (0xff05, (0xff - k) as u8, false), (0xff07, tac, false)];
        let mut left = clocks;
        while left > 0 { let c = left.min(1020); h.push((65537, (c / 4) as u8, false)); left -= c; }
        h.push((0xff05, rng.u8(), false));
        h
      } else { hist };
      // one history in eight is about LCDC: display on, enough time to leave VBlank (the LCD starts at the beginning of
      // VBlank: 4560 clocks) and to reach some mode of a drawn line, then a write with bit 7 clear - every written bit must
      // read back whatever the LCD is doing
      let hist: Vec<(u32, u8, bool)> = if rng.chance(1, 8) {
        let mut h = vec![(0xff40u32, 0x80 | rng.u8(), false), (65536, 72 + (rng.u8() % 8), false)];
        let extra = rng.below(120) as u32;                       // 0..119 machine cycles further: modes 2, 3, 0 of the line
        if extra > 0 { h.push((65537, extra as u8, false)); }
        h.push((0xff40, rng.u8() & 0x7f, false));
        if rng.chance(1, 2) { h.push((65537, rng.u8(), false)); h.push((0xff40, rng.u8(), false)); }
        h
      } else { hist };
      // one history in four talks to the cartridge controller only: every order of bank-low / bank-high / mode / RAM-enable
      // writes, so that the window is read back after each kind of register was the last one written
      let hist: Vec<(u32, u8, bool)> = if rng.chance(1, 4) {
        (0..3 + rng.below(6)).map(|_| (*rng.pick(&[0x0000u32, 0x2000, 0x2100, 0x3fff, 0x4000, 0x5000, 0x5fff, 0x6000, 0x7000, 0x7fff]),
          *rng.pick(&[0u8, 1, 2, 3, 5, 0x0a, 0x1f, 0x20, 0x21, 0x40, 0x60, 0x7f, 0xff]), false)).collect()
      } else { hist };
      // one case in three: the header's other bytes are not the defaults (Color flag 0x80 / 0xC0, SGB flag, licensee,
      // destination, version) - the memory map is a function of type, ROM size and RAM size alone; half of these start
      // with a write to the Color-only VRAM bank register 0xFF4F followed by VRAM writes that must read back
      let hx: Vec<(usize, u8)> = if rng.chance(1, 3) {
        vec![(0x43, *rng.pick(&[0x80u8, 0xc0, 0x80, 0x00])), (0x46, *rng.pick(&[0u8, 3])), (0x4a, rng.u8() & 1), (0x4b, *rng.pick(&[0x33u8, 0x01])), (0x4c, rng.u8() & 3)]
      } else { Vec::new() };
      let hist: Vec<(u32, u8, bool)> = if !hx.is_empty() && rng.chance(1, 2) {
        let mut h = vec![(0xff4fu32, rng.u8() | 1, false), (0x8000 + rng.below(0x2000) as u32, rng.u8(), false), (0x9fffu32, rng.u8(), true)];
        h.extend(hist.iter().cloned());
        h
      } else { hist };
      if idx % nshards != shard { continue; }
      let mut mem = if hx.is_empty() { mk_mem(t, r, m, &[]) } else { crate::roms::mk_mem_x(t, r, m, &hx) };
      let p = &mut mem as *mut MemoryAreas;
      for (a, v, word) in hist.iter() {
        if *a == 65536 { mem.run_clock_cycles(crate::timing::ClockCycles::new(64 * *v as usize)); continue; }
        if *a == 65537 { mem.run_clock_cycles(crate::timing::ClockCycles::new(4 * *v as usize)); continue; }
        let a = &(*a as u16);
        if *word { crate::mem::memory_write_word(p, *a, ((*v as u32 * 257 + 1) & 0xffff) as u16); } else { memory_write_byte(p, *a, *v); }
      }
      let (ds, io) = image_digests(p);
      let (fd, rd) = fetch_digests(p);
      let fe = fetch_echo_digest(p);
      // a word write appears in the line as its two byte writes (the spec of a 16-bit store)
      let mut hs: Vec<String> = Vec::new();
      for (a, v, word) in hist.iter() {
        if *a >= 65536 { hs.push(format!("{}:{}", a, v)); continue; }
        let a = &(*a as u16);
        if *word { let x = ((*v as u32 * 257 + 1) & 0xffff) as u16; hs.push(format!("{}:{}", a, x & 0xff)); hs.push(format!("{}:{}", a.wrapping_add(1), x >> 8)); }
        else { hs.push(format!("{}:{}", a, v)); }
      }
      let dss: Vec<String> = ds.iter().map(|d| d.to_string()).collect();
      let hxs: Vec<String> = hx.iter().map(|(o, v)| format!("{}:{}", o, v)).collect();
      writeln!(w, "c10 type={} rom={} ram={} banks={} ramb={} hx={} hist={} | d={} io={} fd={} rd={} fe={}", t, r, m, rom_bank_count(r), header(t, r, m).get_ram_size_bytes(), if hxs.is_empty() { String::from("-") } else { hxs.join(";") }, hs.join(";"), dss.join(","), hex(&io), fd, rd, fe).unwrap();
    }
  }
}
