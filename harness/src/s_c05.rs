//! C05: data semantics of every defined encoding through the real `interpreter::run_next_op`.
use crate::cpucase::*;
use crate::util::{Opts, Rng};
use std::io::Write;

pub fn encodings() -> Vec<(u8, Option<u8>)> {
  let mut v = Vec::new();
  for b in 0..=255u8 {
    if [0xd3, 0xdb, 0xdd, 0xe3, 0xe4, 0xeb, 0xec, 0xed, 0xf4, 0xfc, 0xfd].contains(&b) { continue; }
    if b == 0xcb { for c in 0..=255u8 { v.push((0xcb, Some(c))); } } else { v.push((b, None)); }
  }
  v
}

/// operand values on nibble/byte carry and BCD edges
const EDGE: [u8; 24] = [0x00, 0x01, 0x02, 0x07, 0x08, 0x09, 0x0a, 0x0f, 0x10, 0x11, 0x1f, 0x3f, 0x40, 0x66, 0x7f, 0x80, 0x81, 0x90, 0x99, 0x9a, 0xa0, 0xf0, 0xfe, 0xff];

fn grid_case(bytes: [u8; 3], a: u8, f: u8, operand: u8) -> Case {
  let ip = 0xc000u16;
  let mut pre: Vec<(u16, u8)> = vec![(0xc800, operand)];
  for k in 0..3u16 { pre.push((ip + k, bytes[k as usize])); }
  Case { cfg: (0x03, 1, 3), regs: [((a as u32) << 8) | f as u32, (operand as u32) << 8, 0x1234, 0xc800, 0xdff0, ip as u32],
         pre, rompatch: vec![], probes: vec![0xc800], bytes }
}

/// small operand domains enumerated completely: every A x every flag nibble for the unary / flag instructions and DAA,
/// every A x edge operands x carry-in for each binary ALU operation in its register, immediate and (HL) form
fn grid(opts: &Opts, w: &mut dyn Write) {
  let (shard, nshards) = opts.shard();
  let mut idx = 0usize;
  let unary: [(u8, u8); 26] = [(0x27, 0), (0x2f, 0), (0x37, 0), (0x3f, 0), (0x07, 0), (0x0f, 0), (0x17, 0), (0x1f, 0), (0x3c, 0), (0x3d, 0),
    (0xcb, 0x07), (0xcb, 0x0f), (0xcb, 0x17), (0xcb, 0x1f), (0xcb, 0x27), (0xcb, 0x2f), (0xcb, 0x37), (0xcb, 0x3f),
    (0xcb, 0x47), (0xcb, 0x7f), (0xcb, 0x87), (0xcb, 0xbf), (0xcb, 0xc7), (0xcb, 0xff), (0xf1, 0), (0xf5, 0)];
  for &(b0, b1) in unary.iter() { for a in 0..=255u8 { for fn_ in 0..16u8 {
    idx += 1;
    if idx % nshards != shard { continue; }
    let mut c = grid_case([b0, b1, 0], a, fn_ << 4, a ^ 0x5a);
    if b0 == 0xf1 { c.regs[4] = 0xc800; c.pre.push((0xc800, fn_ << 4 | (a & 0x0f))); c.pre.push((0xc801, a)); }   // POP AF: F low nibble must be masked
    run_case("c05", &c, w);
  }}}
  let operands: Vec<u8> = if opts.thorough { (0..=255u8).collect() } else { EDGE.to_vec() };
  for y in 0..8u8 { for form in 0..3 { for a in 0..=255u8 { for &v in operands.iter() { for cy in 0..2u8 {
    idx += 1;
    if idx % nshards != shard { continue; }
    let bytes = match form { 0 => [0x80 + y * 8, 0, 0], 1 => [0xc6 + y * 8, v, 0], _ => [0x86 + y * 8, 0, 0] };
    let c = grid_case(bytes, a, (cy << 4) | ((a & 1) << 7) | ((v & 1) << 5), v);
    run_case("c05", &c, w);
  }}}}}
  // signed offsets and displacements, every byte value: ADD SP,e / LD HL,SP+e over edge stack pointers, JR / JR cc over
  // program counters at both ends of work RAM and high RAM, each under all-clear and all-set flags (JR: every flag nibble)
  const SPS: [u16; 14] = [0x0000, 0x0001, 0x007f, 0x0080, 0x00ff, 0x0100, 0x0fff, 0x1000, 0x7fff, 0x8000, 0xd000, 0xff80, 0xfffe, 0xffff];
  for b0 in [0xe8u8, 0xf8] { for e in 0..=255u8 { for &sp in SPS.iter() { for f in [0x00u8, 0xf0] {
    idx += 1;
    if idx % nshards != shard { continue; }
    let mut c = grid_case([b0, e, 0], 0x9c, f, 0x77);
    c.regs[4] = sp as u32;
    run_case("c05", &c, w);
  }}}}
  for b0 in [0x18u8, 0x20, 0x28, 0x30, 0x38] { for d in 0..=255u8 { for &ip in [0xc000u16, 0xc07e, 0xdf00, 0xff80, 0xfffc].iter() { for fn_ in 0..16u8 {
    idx += 1;
    if idx % nshards != shard { continue; }
    let mut c = grid_case([b0, d, 0], 0x9c, fn_ << 4, 0x77);
    c.regs[5] = ip as u32;
    c.pre = vec![(0xc800, 0x77)];
    for k in 0..3u16 { c.pre.push((ip.wrapping_add(k), [b0, d, 0][k as usize])); }
    run_case("c05", &c, w);
  }}}}
}

pub fn run(sub: &str, opts: &Opts, w: &mut dyn Write) {
  if sub == "grid" { return grid(opts, w); }
  let mut rng = Rng::new(opts.seed ^ 0xc05);
  let (shard, nshards) = opts.shard();
  let per = if opts.thorough { 4000 } else { 120 };
  for (k, (b0, cb)) in encodings().into_iter().enumerate() {
    if k % nshards != shard { for _ in 0..per { rng.next(); } continue; }
    for _ in 0..per {
      let b1 = cb.unwrap_or_else(|| byte(&mut rng));
      let b2 = byte(&mut rng);
      let ip = match rng.below(8) { 0 => 0xff80 + rng.below(0x7c) as u16, 1 => rng.below(0x3ff0) as u16, 2 => 0x4000 + rng.below(0x3ff0) as u16, _ => 0xc000 + rng.below(0x1ff0) as u16 };
      let c = gen_case(&mut rng, [b0, b1, b2], ip, (0x03, 1, 3));
      run_case("c05", &c, w);
    }
  }
}
