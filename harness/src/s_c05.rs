//! C05: data semantics of every defined encoding through the real `interpreter::run_next_op`.
use crate::cpucase::*;
use crate::util::{Opts, Rng};
use std::io::Write;

pub fn encodings() -> Vec<(u8, Option<u8>)> {
  let mut v = Vec::new();
  for b in 0..=255u8 {
    if [0xd3, 0xdb, 0xdd, 0xe3, 0xe4, 0xeb, 0xec, 0xed, 0xf4, 0xfc, 0xfd].contains(&b) { continue; }
    if b == 0xcb { for c in 0..=255u8 { v.push((0xcb, Some(c))); } } else { v.push((b, None)); }
  }
  v
}

pub fn run(_sub: &str, opts: &Opts, w: &mut dyn Write) {
  let mut rng = Rng::new(opts.seed ^ 0xc05);
  let (shard, nshards) = opts.shard();
  let per = if opts.thorough { 4000 } else { 120 };
  for (k, (b0, cb)) in encodings().into_iter().enumerate() {
    if k % nshards != shard { for _ in 0..per { rng.next(); } continue; }
    for _ in 0..per {
      let b1 = cb.unwrap_or_else(|| byte(&mut rng));
      let b2 = byte(&mut rng);
      let ip = match rng.below(8) { 0 => 0xff80 + rng.below(0x7c) as u16, 1 => rng.below(0x3ff0) as u16, 2 => 0x4000 + rng.below(0x3ff0) as u16, _ => 0xc000 + rng.below(0x1ff0) as u16 };
      let c = gen_case(&mut rng, [b0, b1, b2], ip, (0x03, 1, 3));
      run_case("c05", &c, w);
    }
  }
}
