//! C01/C02: native differential of translated blocks against the interpreter.
//! Every case builds two identical machines (real `Core::from_rom_file` on a pattern ROM with the block patched in),
//! runs the block once through `interpreter::run_code_block` and once through `CodeCache::translate_code_block` +
//! `CodeCache::call`, and prints both outcomes.  Cases run in a child process; a dead child (JIT fault) is itself an outcome.
//! c01 idx= code=<hex> at= regs=af,bc,de,hl,sp pre=a:v;.. probes=a,.. | i=<regs;st;writes;small;probes;rb> j=<...> jd=<0|sig>
use crate::cpucase::{byte, ptr, small_digest};
use crate::emulator::Core;
use crate::interpreter;
use crate::mem::{memory_read_byte, memory_write_byte, verif_trace, MemoryAreas};
use crate::roms::*;
use crate::util::{hex, Opts, Rng};
use std::io::Write;
use std::process::{Command, Stdio};

pub struct BlockCase {
  pub code: Vec<u8>,
  pub at: u16,
  pub regs: [u32; 5],
  pub pre: Vec<(u16, u8)>,
  pub probes: Vec<u16>,
  /// machine cycles already pending in the register file when the block starts (5 after an interrupt dispatch)
  pub cyc0: u32,
}

const UNDEF: [u8; 11] = [0xd3, 0xdb, 0xdd, 0xe3, 0xe4, 0xeb, 0xec, 0xed, 0xf4, 0xfc, 0xfd];
pub fn is_term(b: u8) -> bool {
  matches!(b, 0x10 | 0x18 | 0x20 | 0x28 | 0x30 | 0x38 | 0x76 | 0xc0 | 0xc2 | 0xc3 | 0xc4 | 0xc7 | 0xc8 | 0xc9 | 0xca | 0xcc | 0xcd | 0xcf
    | 0xd0 | 0xd2 | 0xd4 | 0xd7 | 0xd8 | 0xd9 | 0xda | 0xdc | 0xdf | 0xe7 | 0xe9 | 0xef | 0xf3 | 0xf7 | 0xfb | 0xff)
}
pub const TERMS: [u8; 34] = [0x10, 0x18, 0x20, 0x28, 0x30, 0x38, 0x76, 0xc0, 0xc2, 0xc3, 0xc4, 0xc7, 0xc8, 0xc9, 0xca, 0xcc, 0xcd, 0xcf,
  0xd0, 0xd2, 0xd4, 0xd7, 0xd8, 0xd9, 0xda, 0xdc, 0xdf, 0xe7, 0xe9, 0xef, 0xf3, 0xf7, 0xfb, 0xff];

pub fn op_len(b0: u8) -> usize { crate::decoder::decode(&[b0, 0, 0]).1 }

fn push_op(code: &mut Vec<u8>, b0: u8, rng: &mut Rng) {
  code.push(b0);
  let n = op_len(b0);
  if b0 == 0xcb { code.push(rng.u8()); }
  else if b0 == 0x10 { code.push(0x00); }
  else { for _ in 1..n { code.push(byte(rng)); } }
}

/// case `idx` is a pure function of (seed, idx, tier)
pub fn gen(seed: u64, idx: usize, thorough: bool) -> BlockCase {
  let mut rng = Rng::new(seed ^ (idx as u64).wrapping_mul(0x9E3779B97F4A7C15) ^ 0xc01);
  let mut code: Vec<u8> = Vec::new();
  let n_enc = 500usize;
  let per = if thorough { 400 } else { 12 };
  if idx < n_enc * per {
    // single encoding followed by HALT (terminators stand alone)
    let k = idx / per;
    let encs = crate::s_c05::encodings();
    let (b0, cb) = encs[k % encs.len()];
    code.push(b0);
    match cb { Some(c) => code.push(c), None => { if b0 == 0x10 { code.push(0) } else { for _ in 1..op_len(b0) { code.push(byte(&mut rng)); } } } }
    if !is_term(b0) { code.push(0x76); }
  } else {
    // straight-line block of 1..N ops ending in each kind of terminator; one case in twenty is a long run of one
    // single-byte instruction (lengths around the 8-bit boundaries of anything that counts instructions or bytes)
    let n = 1 + rng.below(if thorough { 24 } else { 10 }) as usize;
    if idx % 20 == 7 {
      let b0 = *rng.pick(&[0x00u8, 0x04, 0x0c, 0x3c, 0x87, 0x2c, 0x00]);
      let k = *rng.pick(&[126usize, 127, 128, 129, 200, 255, 256, 257, 300, 511, 512, 1000]);
      for _ in 0..k { code.push(b0); }
    } else { for _ in 0..n {
      loop {
        let b0 = rng.u8();
        if UNDEF.contains(&b0) || is_term(b0) { continue; }
        push_op(&mut code, b0, &mut rng);
        break;
      }
    } }
    let t = TERMS[(idx - n_enc * per) % TERMS.len()];
    push_op(&mut code, t, &mut rng);
  }
  let at: u16 = match rng.below(6) {
    0 => 0x0150, 1 => rng.below(0x3f00) as u16, 2 => 0x4000 + rng.below(0x3f00) as u16,
    3 => (0x4000 - code.len() + rng.below(3) as usize) as u16, 4 => (0x8000 - code.len()) as u16, _ => 0x0200 + rng.below(0x1000) as u16,
  };
  let a = byte(&mut rng); let f = (rng.u8() & 0xf0) as u32;
  let (bc, de, hl, sp) = (ptr(&mut rng), ptr(&mut rng), ptr(&mut rng), ptr(&mut rng));
  let bc = if rng.chance(1, 2) { ((byte(&mut rng) as u16) << 8) | byte(&mut rng) as u16 } else { bc };
  let mut pre = Vec::new(); let mut probes = Vec::new();
  for base in [hl, bc, de, sp, sp.wrapping_add(1), sp.wrapping_sub(1), sp.wrapping_sub(2), 0xff00 | (bc & 0xff), hl.wrapping_add(1), hl.wrapping_sub(1)] {
    if base >= 0x8000 && !(0xff00..0xff80).contains(&base) && base != 0xffff { pre.push((base, byte(&mut rng))); }
    probes.push(base);
  }
  if rng.chance(1, 4) { pre.push((0xffff, rng.u8())); pre.push((0xff0f, rng.u8())); }
  let cyc0 = match rng.below(8) { 0 => 5, 1 => rng.below(60) as u32, _ => 0 };
  BlockCase { code, at, regs: [((a as u32) << 8) | f, bc as u32, de as u32, hl as u32, sp as u32], pre, probes, cyc0 }
}

pub fn setup(c: &BlockCase) -> Core {
  let mut core = mk_core(0x03, 1, 3);
  for (k, b) in c.code.iter().enumerate() {
    let a = c.at as usize + k;
    // bank 1 is mapped at 0x4000 after reset, so the global index equals the bus address below 0x8000
    if a < core.memory.rom.len() { core.memory.rom[a] = *b; }
  }
  let p = &mut core.memory as *mut MemoryAreas;
  for (a, v) in c.pre.iter() { memory_write_byte(p, *a, *v); }
  core.registers.af = c.regs[0]; core.registers.bc = c.regs[1]; core.registers.de = c.regs[2];
  core.registers.hl = c.regs[3]; core.registers.sp = c.regs[4]; core.registers.ip = c.at as u32; core.registers.cycles = c.cyc0;
  core
}

fn outcome(core: &mut Core, status: u8, c: &BlockCase, trace: Vec<(u8, u16, u8)>) -> String {
  let p = &mut core.memory as *mut MemoryAreas;
  let r = &core.registers;
  let (af, bc, de, hl, sp, ip, cy) = (r.af, r.bc, r.de, r.hl, r.sp, r.ip, r.cycles);
  let writes: Vec<String> = trace.iter().filter(|t| t.0 == 1).map(|t| format!("{}:{}", t.1, t.2)).collect();
  let pv: Vec<String> = c.probes.iter().map(|a| memory_read_byte(p, *a).to_string()).collect();
  format!("{},{},{},{},{},{},{};{};{};{};{};{}", af, bc, de, hl, sp, ip, cy, status, writes.join("+"), small_digest(p), pv.join(","),
    core.memory.cart_state.get_rom_bank())
}

pub fn run_interp(c: &BlockCase) -> String {
  let mut core = setup(c);
  let p = &mut core.memory as *mut MemoryAreas;
  verif_trace::start();
  let mut st;
  // did a host block located in the switchable ROM bank write to the cartridge's banking registers (0x2000-0x7fff)?  (the
  // trigger of the recorded finding of C03: translated code goes on in the old bank's translation; reported under its tag)
  let mut remapped = 0;
  let mut all = Vec::new();
  loop {
    // the interpreter ends ROM blocks at region ends exactly like the translator; go on until the guest terminator ran
    let ip = core.registers.ip as usize;
    let term = ip >= 0x8000 || ends_with_terminator(&core, ip);
    verif_trace::start();
    st = interpreter::run_code_block(&mut core.registers, p);
    let tr = verif_trace::take();
    if ip >= 0x4000 && ip < 0x8000 && tr.iter().any(|t| t.0 == 1 && t.1 >= 0x2000 && t.1 < 0x8000) { remapped = 1; }
    all.extend(tr);
    if term { break; }
  }
  format!("{};{}", outcome(&mut core, st, c, all), remapped)
}

/// does the translation starting at `ip` end with a real block terminator (rather than at the end of its ROM region)?
fn ends_with_terminator(core: &Core, ip: usize) -> bool {
  let mut index = ip;
  loop {
    if crate::mem::rom_block_must_end(ip, index) { return false; }
    if index >= 0x8000 { return true; }
    // decode through the bus so that instructions straddling a region end are seen as the interpreter sees them
    let p = &core.memory as *const MemoryAreas;
    let bytes = [memory_read_byte(p, index as u16), memory_read_byte(p, (index + 1) as u16), memory_read_byte(p, (index + 2) as u16)];
    let (op, len, _) = crate::decoder::decode(&bytes);
    if op.is_block_end() { return true; }
    index += len;
  }
}

/// the `jit` arm of `Core::run_code_block` (translate or look up, call; interpreter where `can_dynarec` is false),
/// repeated until the guest block's terminator has executed
pub fn run_jit(c: &BlockCase) -> String {
  let mut core = setup(c);
  verif_trace::start();
  let mut st;
  loop {
    let ip = core.registers.ip as usize;
    let term = ip >= 0x8000 || ends_with_terminator(&core, ip);
    if crate::mem::can_dynarec(ip) {
      core.cache.set_rom_bank(core.memory.get_rom_bank());
      let addr = match core.cache.get_address_for_ip(ip) {
        Some(a) => a,
        None => core.cache.translate_code_block(&core.memory.rom, ip, core.memory.as_ptr()),
      };
      st = core.cache.call(addr, &mut core.registers);
    } else {
      let p = &mut core.memory as *mut MemoryAreas;
      st = interpreter::run_code_block(&mut core.registers, p);
    }
    if term { break; }
  }
  let tr = verif_trace::take();
  outcome(&mut core, st, c, tr)
}

fn header_part(idx: usize, c: &BlockCase) -> String {
  let pre: Vec<String> = c.pre.iter().map(|(a, v)| format!("{}:{}", a, v)).collect();
  let pr: Vec<String> = c.probes.iter().map(|a| a.to_string()).collect();
  format!("c01 idx={} code={} at={} regs={},{},{},{},{} cyc={} pre={} probes={}", idx, hex(&c.code), c.at,
    c.regs[0], c.regs[1], c.regs[2], c.regs[3], c.regs[4], c.cyc0, pre.join(";"), pr.join(","))
}

/// child: cases from..to on fd 2, one line each, flushed (`J idx <jit outcome>` after `I idx <interp outcome>`)
pub fn child(opts: &Opts) {
  let from = opts.get_usize("from", 0); let to = opts.get_usize("to", 0);
  let err = std::io::stderr();
  for idx in from..to {
    // a translated block that never returns (a seeded translator defect looped here) is killed: the parent reports sig14
    unsafe { libc::alarm(20); }
    let c = gen(opts.seed, idx, opts.thorough);
    let i = run_interp(&c);
    { let mut e = err.lock(); writeln!(e, "I {} {}", idx, i).unwrap(); e.flush().unwrap(); }
    let j = run_jit(&c);
    { let mut e = err.lock(); writeln!(e, "J {} {}", idx, j).unwrap(); e.flush().unwrap(); }
  }
}

/// `outcome;remapped` of the interpreter run -> (outcome, remapped)
fn split_rm(i: &str) -> (String, String) {
  match i.rfind(';') { Some(k) if i != "died" => (i[..k].to_string(), i[k + 1..].to_string()), _ => (i.to_string(), String::from("0")) }
}

pub fn total(thorough: bool) -> usize { if thorough { 500 * 400 + 100_000 } else { 500 * 12 + 2_000 } }

pub fn run(sub: &str, opts: &Opts, w: &mut dyn Write) {
  if sub == "child" { child(opts); return; }
  if sub == "grid" { grid(opts, w); return; }
  let exe = std::env::current_exe().unwrap();
  let (shard, nshards) = opts.shard();
  let n = total(opts.thorough);
  let (lo, hi) = (n * shard / nshards, n * (shard + 1) / nshards);
  let tier = if opts.thorough { "thorough" } else { "quick" };
  let mut from = lo;
  while from < hi {
    let out = Command::new(&exe).arg("c01.child").arg("--from").arg(from.to_string()).arg("--to").arg(hi.to_string())
      .arg("--seed").arg(opts.seed.to_string()).arg("--tier").arg(tier).env("RUST_BACKTRACE", "0")
      .stdin(Stdio::null()).stdout(Stdio::null()).stderr(Stdio::piped()).output().unwrap();
    let so = String::from_utf8_lossy(&out.stderr).to_string();
    let mut last_i: Option<(usize, String)> = None;
    let mut next = from;
    for l in so.lines() {
      let mut it = l.splitn(3, ' ');
      match (it.next(), it.next().and_then(|x| x.parse::<usize>().ok()), it.next()) {
        (Some("I"), Some(idx), Some(rest)) => { last_i = Some((idx, rest.to_string())); },   // outcome;remapped
        (Some("J"), Some(idx), Some(rest)) => {
          if let Some((ii, i)) = last_i.take() { if ii == idx {
            let c = gen(opts.seed, idx, opts.thorough);
            let (i, rm) = split_rm(&i);
            writeln!(w, "{} | i={} rm={} j={} jd=0", header_part(idx, &c), i, rm, rest).unwrap();
            next = idx + 1;
          }}
        },
        _ => (),
      }
    }
    if next < hi && !out.status.success() {
      // the child died inside case `next` (interpreter outcome may or may not have been printed)
      use std::os::unix::process::ExitStatusExt;
      let why = match out.status.signal() { Some(s) => format!("sig{}", s), None => format!("exit{}", out.status.code().unwrap_or(-1)) };
      let c = gen(opts.seed, next, opts.thorough);
      let i = match last_i { Some((ii, i)) if ii == next => i, _ => String::from("died") };
      let (i, rm) = split_rm(&i);
      writeln!(w, "{} | i={} rm={} j=died jd={}", header_part(next, &c), i, rm, why).unwrap();
      next += 1;
    } else if next < hi && out.status.success() {
      break;
    }
    from = next;
  }
}

// ---------------------------------------------------------------------------------------------------------------------
// c01.grid: small operand domains enumerated completely, natively, in both engines.
// One machine per instruction; the block `<instruction> ; JP 0x0300` at 0x0200 is translated once and then run from every
// state of the grid through the translation and through the interpreter; registers, the status and the operand byte
// at 0xC800 (and the two stack bytes below 0xD000 for PUSH) are compared.  One protocol line per instruction:
//   c01.grid code=<hex> dom=<name> | n=<states run> bad=<mismatches> first=<state: interp vs translated>

const GRID_AT: u16 = 0x0200;
const EDGE8: [u8; 24] = [0x00, 0x01, 0x02, 0x07, 0x08, 0x09, 0x0a, 0x0f, 0x10, 0x11, 0x1f, 0x3f, 0x40, 0x66, 0x7f, 0x80, 0x81, 0x90, 0x99, 0x9a, 0xa0, 0xf0, 0xfe, 0xff];
const EDGE16: [u16; 22] = [0x0000, 0x0001, 0x000f, 0x0010, 0x00ff, 0x0100, 0x0fff, 0x1000, 0x1234, 0x7fff, 0x8000, 0x8001, 0xc7ff, 0xc800,
  0xcfff, 0xd000, 0xefff, 0xf000, 0xff00, 0xfffe, 0xffff, 0x0800];

/// a grid state: AF, BC, DE, HL, SP and the byte at 0xC800
type GState = ([u32; 5], u8);

fn grid_outcome(core: &mut Core, st: u8) -> String {
  let p = &mut core.memory as *mut MemoryAreas;
  let r = &core.registers;
  let (af, bc, de, hl, sp, ip, cy) = (r.af, r.bc, r.de, r.hl, r.sp, r.ip, r.cycles);
  // the status byte by its class, as Core::run_code_block reads it: STOP, HALT, DI, EI (delayed or immediate), anything else = normal
  // (translated rotates / BIT leave 0x80 there when the result is zero; no arm of the match in run_code_block reads that value)
  let class = match st { 1 => 1, 2 => 2, 3 => 3, 4 | 5 => 4, _ => 0 };
  format!("{},{},{},{},{},{},{};{};{},{},{}", af, bc, de, hl, sp, ip, cy, class, memory_read_byte(p, 0xc800), memory_read_byte(p, 0xcffe), memory_read_byte(p, 0xcfff))
}

fn grid_set(core: &mut Core, s: &GState) {
  let p = &mut core.memory as *mut MemoryAreas;
  memory_write_byte(p, 0xc800, s.1); memory_write_byte(p, 0xc801, (s.0[0] >> 8) as u8);
  memory_write_byte(p, 0xcffe, 0x5a); memory_write_byte(p, 0xcfff, 0xa5);
  core.registers.af = s.0[0]; core.registers.bc = s.0[1]; core.registers.de = s.0[2]; core.registers.hl = s.0[3]; core.registers.sp = s.0[4];
  core.registers.ip = GRID_AT as u32; core.registers.cycles = 5;   // as after an interrupt dispatch
}

fn grid_run(code: &[u8], dom: &str, states: &mut dyn Iterator<Item = GState>, w: &mut dyn Write) {
  let mut core = mk_core(0x03, 1, 3);
  for (k, b) in code.iter().enumerate() { core.memory.rom[GRID_AT as usize + k] = *b; }
  // terminator `JP 0x0300`: it leaves the status byte alone, so a template that leaks a scratch value into it shows
  for (k, b) in [0xc3u8, 0x00, 0x03].iter().enumerate() { core.memory.rom[GRID_AT as usize + code.len() + k] = *b; }
  core.cache.set_rom_bank(core.memory.get_rom_bank());
  let addr = core.cache.translate_code_block(&core.memory.rom, GRID_AT as usize, core.memory.as_ptr());
  let (mut n, mut bad) = (0usize, 0usize);
  let mut first = String::from("-");
  for s in states {
    n += 1;
    grid_set(&mut core, &s);
    let st = core.cache.call(addr, &mut core.registers);
    let j = grid_outcome(&mut core, st);
    grid_set(&mut core, &s);
    let p = &mut core.memory as *mut MemoryAreas;
    let st = interpreter::run_code_block(&mut core.registers, p);
    let i = grid_outcome(&mut core, st);
    if i != j {
      bad += 1;
      if bad == 1 { first = format!("af:{},bc:{},de:{},hl:{},sp:{},m:{}/interp:{}/translated:{}", s.0[0], s.0[1], s.0[2], s.0[3], s.0[4], s.1, i, j); }
    }
  }
  writeln!(w, "c01.grid code={} dom={} | n={} bad={} first={}", hex(code), dom, n, bad, first).unwrap();
}

/// place `v` in the register an 8-bit operand index selects (0..7 = B C D E H L (HL) A); (HL) -> HL = 0xC800, memory byte
fn with_r8(r: u8, v: u8, a: u8, f: u8) -> GState {
  let mut regs = [((a as u32) << 8) | f as u32, 0x1122, 0x3344, 0xc800, 0xd000];
  let mut m = 0x77u8;
  match r {
    0 => regs[1] = ((v as u32) << 8) | 0x22, 1 => regs[1] = 0x1100 | v as u32,
    2 => regs[2] = ((v as u32) << 8) | 0x44, 3 => regs[2] = 0x3300 | v as u32,
    4 => regs[3] = ((v as u32) << 8) | 0x66, 5 => regs[3] = 0x5500 | v as u32,
    6 => m = v,
    _ => regs[0] = ((v as u32) << 8) | f as u32,
  }
  (regs, m)
}

pub fn grid(opts: &Opts, w: &mut dyn Write) {
  let (shard, nshards) = opts.shard();
  let mut idx = 0usize;
  let mut mine = || { idx += 1; idx % nshards == shard };
  // 1. accumulator / flag instructions: every A x every flag nibble
  for code in [vec![0x27u8], vec![0x2f], vec![0x37], vec![0x3f], vec![0x07], vec![0x0f], vec![0x17], vec![0x1f], vec![0xf5], vec![0xf5, 0xf1], vec![0xf5, 0xc1]] {
    if !mine() { continue; }
    let mut it = (0..=255u32).flat_map(|a| (0..16u32).map(move |f| ([(a << 8) | (f << 4), 0x1122, 0x3344, 0xc800, 0xd000], (a as u8) ^ 0x5a)));
    grid_run(&code, "A*F", &mut it, w);
  }
  // 2. the eight ALU operations, register / immediate / (HL) form: every A x operands x every flag nibble's carry and half-carry
  let operands: Vec<u8> = if opts.thorough { (0..=255u8).collect() } else { EDGE8.to_vec() };
  for y in 0..8u8 {
    for r in 0..8u8 {
      if !mine() { continue; }
      let ops = operands.clone();
      let mut it = (0..=255u8).flat_map(|a| { let ops = ops.clone(); ops.into_iter().flat_map(move |v| vec![0x00u8, 0x10, 0x20, 0x30, 0xf0].into_iter().map(move |f| with_r8(r, v, a, f))) });
      grid_run(&[0x80 + y * 8 + r], "A*r*F", &mut it, w);
    }
    for &v in operands.iter() {
      if !mine() { continue; }
      let mut it = (0..=255u32).flat_map(|a| vec![0x00u32, 0x10, 0x20, 0x30, 0xf0].into_iter().map(move |f| ([(a << 8) | f, 0x1122, 0x3344, 0xc800, 0xd000], 0x77u8)));
      grid_run(&[0xc6 + y * 8, v], "A*F", &mut it, w);
    }
  }
  // 3. every CB-prefixed instruction: every value of its operand x every flag nibble
  for cb in 0..=255u8 {
    if !mine() { continue; }
    let r = cb & 7;
    let mut it = (0..=255u8).flat_map(|v| (0..16u8).map(move |f| with_r8(r, v, 0x9c, f << 4)));
    grid_run(&[0xcb, cb], "r*F", &mut it, w);
  }
  // 4. INC r / DEC r / LD r,n / LD r,r'
  for r in 0..8u8 { for code in [vec![0x04 + 8 * r], vec![0x05 + 8 * r]] {
    if !mine() { continue; }
    let mut it = (0..=255u8).flat_map(|v| (0..16u8).map(move |f| with_r8(r, v, 0x9c, f << 4)));
    grid_run(&code, "r*F", &mut it, w);
  }}
  for d in 0..8u8 { for s in 0..8u8 {
    if d == 6 && s == 6 { continue; }
    if !mine() { continue; }
    let mut it = (0..=255u8).map(|v| with_r8(s, v, 0x9c, 0xb0));
    grid_run(&[0x40 + 8 * d + s], "r", &mut it, w);
  }}
  // 5. 16-bit arithmetic at the edges: ADD HL,rr ; INC/DEC rr ; ADD SP,e ; LD HL,SP+e ; LD SP,HL ; PUSH/POP rr
  let e16: Vec<u16> = EDGE16.to_vec();
  for rr in 0..4u8 {
    for code in [vec![0x09 + 16 * rr], vec![0x03 + 16 * rr], vec![0x0b + 16 * rr]] {
      if !mine() { continue; }
      let e = e16.clone();
      let mut it = e.clone().into_iter().flat_map(|x| { let e = e.clone(); e.into_iter().flat_map(move |y| vec![0x00u32, 0xf0].into_iter().map(move |f| {
        let mut regs = [0x9c00 | f, 0x1122, 0x3344, x as u32, 0xd000];
        match rr { 0 => regs[1] = y as u32, 1 => regs[2] = y as u32, 2 => regs[3] = x as u32 ^ (y as u32 & 0), _ => regs[4] = y as u32 }
        (regs, 0x77u8)
      })) });
      grid_run(&code, "HL*rr*F", &mut it, w);
    }
  }
  for code0 in [0xe8u8, 0xf8] {
    let es: Vec<u8> = if opts.thorough { (0..=255u8).collect() } else { EDGE8.to_vec() };
    for e in es {
      if !mine() { continue; }
      let mut it = e16.clone().into_iter().flat_map(|sp| vec![0x00u32, 0xf0].into_iter().map(move |f| ([0x9c00 | f, 0x1122, 0x3344, 0x5566, sp as u32], 0x77u8)));
      grid_run(&[code0, e], "SP*F", &mut it, w);
    }
  }
  // 6. control flow: JR / JR cc with every displacement, JP cc / CALL cc / RET cc / RST / JP (HL) / RETI, under every flag nibble
  //    (these end the block themselves; the JP appended by grid_run is never reached)
  for op in [0x18u8, 0x20, 0x28, 0x30, 0x38] { for d in 0..=255u8 {
    if !mine() { continue; }
    let mut it = (0..16u32).map(|f| ([0x9c00 | (f << 4), 0x1122, 0x3344, 0x5566, 0xd000], 0x77u8));
    grid_run(&[op, d], "F", &mut it, w);
  }}
  for code in [vec![0xc3u8, 0x34, 0x12], vec![0xc2, 0x34, 0x12], vec![0xca, 0x34, 0x12], vec![0xd2, 0x34, 0x12], vec![0xda, 0x34, 0x12],
               vec![0xcd, 0x34, 0x12], vec![0xc4, 0x34, 0x12], vec![0xcc, 0x34, 0x12], vec![0xd4, 0x34, 0x12], vec![0xdc, 0x34, 0x12],
               vec![0xc9], vec![0xc0], vec![0xc8], vec![0xd0], vec![0xd8], vec![0xd9], vec![0xe9],
               vec![0xc7], vec![0xcf], vec![0xd7], vec![0xdf], vec![0xe7], vec![0xef], vec![0xf7], vec![0xff],
               vec![0x76], vec![0x10, 0x00], vec![0xf3], vec![0xfb]] {
    if !mine() { continue; }
    let e = e16.clone();
    let mut it = (0..16u32).flat_map(|f| { let e = e.clone(); e.into_iter().map(move |hl| ([0x9c00 | (f << 4), 0x1122, 0x3344, hl as u32, 0xd000], 0x77u8)) });
    grid_run(&code, "F*HL", &mut it, w);
  }
  for code in [vec![0xf9u8], vec![0xc5, 0xd1], vec![0xd5, 0xe1], vec![0xe5, 0xc1], vec![0xf5, 0xe1]] {
    if !mine() { continue; }
    let e = e16.clone();
    let mut it = e.clone().into_iter().flat_map(|x| { let e = e.clone(); e.into_iter().map(move |y| ([0x9cb0 ^ ((y as u32) << 4 & 0xf0), x as u32, y as u32, x as u32 ^ 0x00ff, 0xd000], 0x77u8)) });
    grid_run(&code, "rr*rr", &mut it, w);
  }
  // N. long straight-line blocks: the translated block must be the whole run up to the terminator, as the interpreter's is
  for n in [1000usize, 1025, 2100] {
    if !mine() { continue; }
    let code = vec![0x04u8; n];   // INC B x n
    let mut it = EDGE8.iter().map(|v| with_r8(0, *v, 0x12, 0x30));
    grid_run(&code, "long", &mut it, w);
  }
}
