//! C15: frame composition.  The real `VideoState` is driven through its public API over one full
//! frame from power-on (LY=144, mode 1): 4560 clocks to line 0, 144 x 456 clocks to VBlank entry
//! (where the buffers are swapped), in random batch sizes (multiples of 4), with VRAM, OAM and all
//! registers held constant.  The presented frame is `get_visible_buffer()`.
//!
//! line: c15 k=<case> lcdc=.. scx=.. scy=.. wx=.. wy=.. bgp=.. obp0=.. obp1=.. bs=<batch seed>
//!           oam=<320 hex> vram=<16384 hex> | frame=<46080 hex>      (or `| panic=<kind>`)
//!
//! stream c15.seq: SEVERAL frames per case on ONE VideoState; between two frames, at `vb<f>` clocks into the
//! VBlank (multiple of 4, < 4560), the setters are called again and VRAM/OAM may be replaced, so state carried
//! from line to line and frame to frame (object line cache, its cursor, window line, tile cache) is observed.
//! Every presented frame is compared with the reference for the contents held constant over THAT frame.
//! line: c15.seq k=<case> nf=<n> bs=.. { lcdc<f>= scx<f>= scy<f>= wx<f>= wy<f>= bgp<f>= obp0<f>= obp1<f>= vb<f>=
//!           oam<f>=<hex> [vram<f>=<hex> when it differs from frame f-1] }  |  fz<f>=<11520 hex: 2 pixels per digit,
//!           shade indices> (or frame<f>=<46080 hex> if a byte is not one of the four shades)   (or `| panic=<kind>`)
//! Options: --n <cases>  --shard i/n  --replay-line "<line>"
use crate::devices::video::VideoState;
use crate::timing::ClockCycles;
use crate::util::{Opts, Rng};
use std::io::Write;

pub struct Case {
  pub k: u64,
  pub lcdc: u8, pub scx: u8, pub scy: u8, pub wx: u8, pub wy: u8,
  pub bgp: u8, pub obp0: u8, pub obp1: u8,
  pub bs: u64,
  pub oam: Vec<u8>,
  pub vram: Vec<u8>,
}

const HEX: &[u8; 16] = b"0123456789abcdef";
fn hex_into(s: &mut Vec<u8>, bytes: &[u8]) {
  for b in bytes { s.push(HEX[(b >> 4) as usize]); s.push(HEX[(b & 15) as usize]); }
}
fn unhex(s: &str) -> Vec<u8> {
  let b = s.as_bytes();
  let v = |c: u8| -> u8 { match c { b'0'..=b'9' => c - b'0', b'a'..=b'f' => c - b'a' + 10, b'A'..=b'F' => c - b'A' + 10, _ => 0 } };
  (0..b.len() / 2).map(|i| v(b[2 * i]) * 16 + v(b[2 * i + 1])).collect()
}

/// run the real pipeline; Err(kind) if it panicked
pub fn render(c: &Case) -> Result<Vec<u8>, String> {
  let vram: Box<[u8]> = c.vram.clone().into_boxed_slice();
  let oam: Box<[u8]> = c.oam.clone().into_boxed_slice();
  let r = std::panic::catch_unwind(std::panic::AssertUnwindSafe(|| {
    let mut v = VideoState::new();
    v.set_lcd_control(c.lcdc);
    v.set_bgp(c.bgp);
    v.set_obj_palette(0, c.obp0);
    v.set_obj_palette(1, c.obp1);
    v.set_scroll_x(c.scx);
    v.set_scroll_y(c.scy);
    v.set_window_x(c.wx);
    v.set_window_y(c.wy);
    let mut rng = Rng::new(c.bs);
    let mut remaining: usize = 4560 + 144 * 456;
    while remaining > 0 {
      // batch sizes: single ticks, instruction-sized, line-sized and multi-line batches
      let b = match rng.below(4) {
        0 => 4,
        1 => 4 * (1 + rng.below(6) as usize),
        2 => 4 * (1 + rng.below(114) as usize),
        _ => 4 * (1 + rng.below(1200) as usize),
      };
      let b = b.min(remaining);
      v.run_clock_cycles(ClockCycles(b), &vram, &oam);
      remaining -= b;
    }
    // the machine must now be at VBlank entry
    if v.get_ly() != 144 || v.get_current_mode() != 1 { return Err(format!("notvblank-ly{}-mode{}", v.get_ly(), v.get_current_mode())); }
    Ok(v.get_visible_buffer().to_vec())
  }));
  match r {
    Ok(Ok(f)) => Ok(f),
    Ok(Err(e)) => Err(e),
    Err(p) => {
      let msg = if let Some(s) = p.downcast_ref::<String>() { s.clone() } else if let Some(s) = p.downcast_ref::<&str>() { s.to_string() } else { "panic".into() };
      let kind = if msg.contains("out of range") || msg.contains("out of bounds") { "oob" } else if msg.contains("overflow") { "overflow" } else { "explicit" };
      Err(kind.to_string())
    }
  }
}

fn emit(c: &Case, w: &mut dyn Write) {
  let mut s: Vec<u8> = Vec::with_capacity(64000);
  s.extend_from_slice(format!("c15 k={} lcdc={} scx={} scy={} wx={} wy={} bgp={} obp0={} obp1={} bs={} oam=",
    c.k, c.lcdc, c.scx, c.scy, c.wx, c.wy, c.bgp, c.obp0, c.obp1, c.bs).as_bytes());
  hex_into(&mut s, &c.oam);
  s.extend_from_slice(b" vram=");
  hex_into(&mut s, &c.vram);
  match render(c) {
    Ok(f) => { s.extend_from_slice(b" | frame="); hex_into(&mut s, &f); }
    Err(e) => { s.extend_from_slice(b" | panic="); s.extend_from_slice(e.as_bytes()); }
  }
  s.push(b'\n');
  w.write_all(&s).unwrap();
}

const X_EDGE: [u8; 16] = [0, 1, 4, 7, 8, 9, 15, 16, 80, 159, 160, 161, 167, 168, 169, 255];
const Y_EDGE: [u8; 16] = [0, 1, 8, 9, 15, 16, 17, 24, 143, 144, 152, 153, 159, 160, 161, 255];
const WX_EDGE: [u8; 20] = [0, 1, 2, 3, 4, 5, 6, 7, 8, 9, 15, 16, 87, 159, 160, 165, 166, 167, 168, 200];
const WY_EDGE: [u8; 10] = [0, 1, 7, 8, 100, 142, 143, 144, 200, 255];
const SC_EDGE: [u8; 12] = [0, 1, 2, 3, 4, 5, 6, 7, 8, 248, 249, 255];

fn gen_vram(rng: &mut Rng) -> Vec<u8> {
  let mut v = vec![0u8; 0x2000];
  let style = rng.below(5);
  // tile data 0x0000..0x17ff (384 tiles)
  match style {
    0 | 1 => { for b in v[..0x1800].iter_mut() { *b = rng.u8(); } }
    2 => {
      // half of the tiles blank (BG colour 0 everywhere in them), the rest random
      for t in 0..384 { if rng.chance(1, 2) { for b in v[t * 16..t * 16 + 16].iter_mut() { *b = rng.u8(); } } }
    }
    3 => {
      // every tile a solid colour c (rows: low = 0/ff, high = 0/ff) with a few random rows
      for t in 0..384 {
        let c = rng.below(4);
        for r in 0..8 {
          v[t * 16 + 2 * r] = if c & 1 != 0 { 0xff } else { 0 };
          v[t * 16 + 2 * r + 1] = if c & 2 != 0 { 0xff } else { 0 };
          if rng.chance(1, 8) { v[t * 16 + 2 * r] = rng.u8(); v[t * 16 + 2 * r + 1] = rng.u8(); }
        }
      }
    }
    _ => {
      // sparse: mostly zero, a handful of random tiles
      for _ in 0..24 { let t = rng.below(384) as usize; for b in v[t * 16..t * 16 + 16].iter_mut() { *b = rng.u8(); } }
    }
  }
  // the two maps 0x1800..0x1fff
  match rng.below(4) {
    0 | 1 => { for b in v[0x1800..].iter_mut() { *b = rng.u8(); } }
    2 => { for (i, b) in v[0x1800..].iter_mut().enumerate() { *b = (i as u8).wrapping_mul(7).wrapping_add(rng.below(3) as u8); } }
    _ => { let lo = rng.u8(); for b in v[0x1800..].iter_mut() { *b = lo.wrapping_add(rng.below(4) as u8) ^ (if rng.chance(1, 2) { 0x80 } else { 0 }); } }
  }
  v
}

fn gen_oam(rng: &mut Rng) -> Vec<u8> {
  let mut o = vec![0u8; 0xa0];
  let style = rng.below(8);
  match style {
    0 => { for b in o.iter_mut() { *b = rng.u8(); } }
    1 => {
      // on-screen-ish positions
      for i in 0..40 { o[4 * i] = rng.below(168) as u8; o[4 * i + 1] = rng.below(176) as u8; o[4 * i + 2] = rng.u8(); o[4 * i + 3] = rng.u8(); }
    }
    2 | 3 => {
      // 11..40 objects covering one target line, X from the edge set or clustered
      let line = rng.below(144) as i32;
      let many = 11 + rng.below(30) as usize;
      let cluster = rng.below(176) as u8;
      for i in 0..40 {
        let y = if i < many { (line + 16 - rng.below(16) as i32).max(0) as u8 } else { rng.u8() };
        let x = match rng.below(3) { 0 => *rng.pick(&X_EDGE), 1 => cluster.wrapping_add(rng.below(9) as u8), _ => rng.below(176) as u8 };
        o[4 * i] = y; o[4 * i + 1] = x; o[4 * i + 2] = rng.u8(); o[4 * i + 3] = rng.u8();
      }
    }
    4 => {
      // all objects at the same X (ties decided by OAM index) on a few lines
      let x = if rng.chance(1, 2) { *rng.pick(&X_EDGE) } else { rng.below(168) as u8 };
      let y0 = rng.below(150) as u8;
      for i in 0..40 { o[4 * i] = y0.wrapping_add(rng.below(4) as u8); o[4 * i + 1] = x; o[4 * i + 2] = rng.u8(); o[4 * i + 3] = rng.u8(); }
    }
    5 => {
      // staircase of overlapping objects (X step 1..7), Y from the edge set
      let step = 1 + rng.below(7) as u8;
      let down = rng.chance(1, 2);
      let x0 = rng.below(160) as u8;
      for i in 0..40u8 {
        o[4 * i as usize] = *rng.pick(&Y_EDGE);
        o[4 * i as usize + 1] = if down { x0.wrapping_sub(step.wrapping_mul(i)) } else { x0.wrapping_add(step.wrapping_mul(i)) };
        o[4 * i as usize + 2] = rng.u8(); o[4 * i as usize + 3] = rng.u8();
      }
    }
    6 => {
      // edge Y x edge X
      for i in 0..40 { o[4 * i] = *rng.pick(&Y_EDGE); o[4 * i + 1] = *rng.pick(&X_EDGE); o[4 * i + 2] = rng.u8(); o[4 * i + 3] = rng.u8(); }
    }
    _ => {
      // few objects, everything else parked off-screen (Y = 0)
      for _ in 0..(1 + rng.below(6)) { let i = rng.below(40) as usize; o[4 * i] = rng.below(168) as u8; o[4 * i + 1] = rng.below(176) as u8; o[4 * i + 2] = rng.u8(); o[4 * i + 3] = rng.u8(); }
    }
  }
  // 8x16 corner: tile indices 0xfe / 0xff / odd
  if rng.chance(1, 4) { for i in 0..40 { if rng.chance(1, 3) { o[4 * i + 2] = *rng.pick(&[0xffu8, 0xfe, 0x01, 0x7f, 0x81]); } } }
  o
}

pub fn gen_case(seed: u64, k: u64) -> Case {
  let mut rng = Rng::new(seed.wrapping_mul(1_000_003).wrapping_add(k).wrapping_add(0xC15));
  for _ in 0..4 { rng.next(); }
  // LCDC: bits 7 and 0 set (LCD and BG enabled), bits 1..6 free; objects on 3 times out of 4
  let mut lcdc = 0x81 | (rng.u8() & 0x7e);
  if rng.chance(1, 2) { lcdc |= 0x02; }
  let pick_sc = |rng: &mut Rng| -> u8 { if rng.chance(1, 3) { *rng.pick(&SC_EDGE) } else { rng.u8() } };
  let mut scx = pick_sc(&mut rng);
  let mut scy = pick_sc(&mut rng);
  let mut wx = if rng.chance(2, 3) { *rng.pick(&WX_EDGE) } else { rng.u8() };
  let mut wy = match rng.below(3) { 0 => *rng.pick(&WY_EDGE), 1 => rng.below(144) as u8, _ => rng.u8() };
  // systematic sweeps so that every value of each register is met as k grows
  match k % 8 {
    0 => scx = (k / 8) as u8,
    1 => scy = (k / 8) as u8,
    2 => { wx = (k / 8) as u8; lcdc |= 0x20; wy = rng.below(100) as u8; }
    3 => { wy = (k / 8) as u8; lcdc |= 0x20; }
    _ => {}
  }
  let pal = |rng: &mut Rng| -> u8 { match rng.below(4) { 0 => 0xe4, 1 => 0x1b, _ => rng.u8() } };
  let bgp = pal(&mut rng); let obp0 = pal(&mut rng); let obp1 = pal(&mut rng);
  let bs = rng.next();
  let oam = gen_oam(&mut rng);
  let vram = gen_vram(&mut rng);
  Case { k, lcdc, scx, scy, wx, wy, bgp, obp0, obp1, bs, oam, vram }
}

fn parse_line(line: &str) -> Case {
  let mut c = Case { k: 0, lcdc: 0x81, scx: 0, scy: 0, wx: 0, wy: 0, bgp: 0, obp0: 0, obp1: 0, bs: 1, oam: vec![0; 0xa0], vram: vec![0; 0x2000] };
  for t in line.split_whitespace() {
    if t == "|" { break; }
    if let Some(i) = t.find('=') {
      let (k, v) = (&t[..i], &t[i + 1..]);
      let n = || v.parse::<u64>().unwrap_or(0);
      match k {
        "k" => c.k = n(), "lcdc" => c.lcdc = n() as u8, "scx" => c.scx = n() as u8, "scy" => c.scy = n() as u8,
        "wx" => c.wx = n() as u8, "wy" => c.wy = n() as u8, "bgp" => c.bgp = n() as u8,
        "obp0" => c.obp0 = n() as u8, "obp1" => c.obp1 = n() as u8, "bs" => c.bs = n(),
        "oam" => c.oam = unhex(v), "vram" => c.vram = unhex(v),
        _ => {}
      }
    }
  }
  c
}


// ---------------------------------------------------------------- multi-frame sequences

pub struct FrameIn { pub lcdc: u8, pub scx: u8, pub scy: u8, pub wx: u8, pub wy: u8, pub bgp: u8, pub obp0: u8, pub obp1: u8,
                     pub vb: usize, pub oam: Vec<u8>, pub vram: Vec<u8>, pub vram_new: bool }
pub struct Seq { pub k: u64, pub bs: u64, pub frames: Vec<FrameIn> }

fn apply_regs(v: &mut VideoState, f: &FrameIn) {
  v.set_lcd_control(f.lcdc);
  v.set_bgp(f.bgp);
  v.set_obj_palette(0, f.obp0);
  v.set_obj_palette(1, f.obp1);
  v.set_scroll_x(f.scx);
  v.set_scroll_y(f.scy);
  v.set_window_x(f.wx);
  v.set_window_y(f.wy);
}

fn run_batches(v: &mut VideoState, rng: &mut Rng, mut remaining: usize, vram: &Box<[u8]>, oam: &Box<[u8]>) {
  while remaining > 0 {
    let b = match rng.below(4) {
      0 => 4,
      1 => 4 * (1 + rng.below(6) as usize),
      2 => 4 * (1 + rng.below(114) as usize),
      _ => 4 * (1 + rng.below(1200) as usize),
    };
    let b = b.min(remaining);
    v.run_clock_cycles(ClockCycles(b), vram, oam);
    remaining -= b;
  }
}

pub fn render_seq(q: &Seq) -> Result<Vec<Vec<u8>>, String> {
  let r = std::panic::catch_unwind(std::panic::AssertUnwindSafe(|| {
    let mut out = Vec::new();
    let mut v = VideoState::new();
    let mut rng = Rng::new(q.bs);
    let mut vram: Box<[u8]> = q.frames[0].vram.clone().into_boxed_slice();
    let mut oam: Box<[u8]> = q.frames[0].oam.clone().into_boxed_slice();
    apply_regs(&mut v, &q.frames[0]);
    run_batches(&mut v, &mut rng, 4560 + 144 * 456, &vram, &oam);
    if v.get_ly() != 144 || v.get_current_mode() != 1 { return Err(format!("notvblank-f0-ly{}-mode{}", v.get_ly(), v.get_current_mode())); }
    out.push(v.get_visible_buffer().to_vec());
    for (i, f) in q.frames.iter().enumerate().skip(1) {
      // part of the VBlank with the old contents, then the guest rewrites registers / OAM / VRAM
      run_batches(&mut v, &mut rng, f.vb, &vram, &oam);
      apply_regs(&mut v, f);
      vram = f.vram.clone().into_boxed_slice();
      oam = f.oam.clone().into_boxed_slice();
      run_batches(&mut v, &mut rng, 4560 - f.vb + 144 * 456, &vram, &oam);
      if v.get_ly() != 144 || v.get_current_mode() != 1 { return Err(format!("notvblank-f{}-ly{}-mode{}", i, v.get_ly(), v.get_current_mode())); }
      out.push(v.get_visible_buffer().to_vec());
    }
    Ok(out)
  }));
  match r {
    Ok(Ok(f)) => Ok(f),
    Ok(Err(e)) => Err(e),
    Err(p) => {
      let msg = if let Some(s) = p.downcast_ref::<String>() { s.clone() } else if let Some(s) = p.downcast_ref::<&str>() { s.to_string() } else { "panic".into() };
      let kind = if msg.contains("out of range") || msg.contains("out of bounds") { "oob" } else if msg.contains("overflow") { "overflow" } else { "explicit" };
      Err(kind.to_string())
    }
  }
}

fn shade_index(b: u8) -> Option<u8> { match b { 255 => Some(0), 170 => Some(1), 85 => Some(2), 0 => Some(3), _ => None } }

fn emit_seq(q: &Seq, w: &mut dyn Write) {
  let mut s: Vec<u8> = Vec::with_capacity(160000);
  s.extend_from_slice(format!("c15.seq k={} nf={} bs={}", q.k, q.frames.len(), q.bs).as_bytes());
  for (i, f) in q.frames.iter().enumerate() {
    s.extend_from_slice(format!(" lcdc{i}={} scx{i}={} scy{i}={} wx{i}={} wy{i}={} bgp{i}={} obp0{i}={} obp1{i}={} vb{i}={} oam{i}=",
      f.lcdc, f.scx, f.scy, f.wx, f.wy, f.bgp, f.obp0, f.obp1, f.vb, i = i).as_bytes());
    hex_into(&mut s, &f.oam);
    if i == 0 || f.vram_new {
      s.extend_from_slice(format!(" vram{}=", i).as_bytes());
      hex_into(&mut s, &f.vram);
    }
  }
  match render_seq(q) {
    Ok(frames) => {
      s.extend_from_slice(b" |");
      for (i, f) in frames.iter().enumerate() {
        if f.iter().all(|b| shade_index(*b).is_some()) && f.len() % 2 == 0 {
          s.extend_from_slice(format!(" fz{}=", i).as_bytes());
          for p in f.chunks(2) { s.push(HEX[(shade_index(p[0]).unwrap() * 4 + shade_index(p[1]).unwrap()) as usize]); }
        } else {
          s.extend_from_slice(format!(" frame{}=", i).as_bytes());
          hex_into(&mut s, f);
        }
      }
    }
    Err(e) => { s.extend_from_slice(b" | panic="); s.extend_from_slice(e.as_bytes()); }
  }
  s.push(b'\n');
  w.write_all(&s).unwrap();
}

/// OAM with opaque-capable objects on the last visible lines (what survives in the line cache into the next frame)
fn gen_oam_last_lines(rng: &mut Rng) -> Vec<u8> {
  let mut o = gen_oam(rng);
  let n = 1 + rng.below(12) as usize;
  for _ in 0..n {
    let i = rng.below(40) as usize;
    // 8x8: Y in 152..=159 covers line 143; 8x16: Y in 144..=159
    o[4 * i] = 144 + rng.below(16) as u8;
    o[4 * i + 1] = if rng.chance(1, 4) { *rng.pick(&X_EDGE) } else { 1 + rng.below(167) as u8 };
    o[4 * i + 2] = rng.u8(); o[4 * i + 3] = rng.u8();
  }
  o
}

pub fn gen_seq(seed: u64, k: u64) -> Seq {
  let mut rng = Rng::new(seed.wrapping_mul(1_000_003).wrapping_add(k).wrapping_add(0x5EC15));
  for _ in 0..4 { rng.next(); }
  let c = gen_case(seed ^ 0x5e9, k);
  let nf = 2 + rng.below(2) as usize; // 2 or 3 frames (keeps a line below the 128 KiB argv limit for --replay-line)
  let directed = k % 3; // 0: objects on -> off -> on with objects on the last lines; 1: 8x16 <-> 8x8; 2: free
  let mut f0 = FrameIn { lcdc: c.lcdc, scx: c.scx, scy: c.scy, wx: c.wx, wy: c.wy, bgp: c.bgp, obp0: c.obp0, obp1: c.obp1,
                         vb: 0, oam: c.oam, vram: c.vram, vram_new: true };
  if directed == 0 {
    f0.lcdc |= 0x02;
    f0.oam = gen_oam_last_lines(&mut rng);
    if f0.vram[..0x1000].iter().filter(|b| **b != 0).count() < 2048 { for b in f0.vram[..0x1000].iter_mut() { *b = rng.u8(); } }
  }
  if directed == 1 { f0.lcdc |= 0x02; }
  let mut frames = vec![f0];
  for i in 1..nf {
    let p = &frames[i - 1];
    let mut f = FrameIn { lcdc: p.lcdc, scx: p.scx, scy: p.scy, wx: p.wx, wy: p.wy, bgp: p.bgp, obp0: p.obp0, obp1: p.obp1,
                          vb: 4 * rng.below(1140) as usize, oam: p.oam.clone(), vram: p.vram.clone(), vram_new: false };
    if rng.chance(1, 4) { f.vb = *rng.pick(&[0usize, 4, 4556]); }
    // LCDC bits 1..6 toggled at random; bits 7 and 0 stay set
    for bit in [0x02u8, 0x04, 0x08, 0x10, 0x20, 0x40] { if rng.chance(1, 3) { f.lcdc ^= bit; } }
    match directed {
      0 => { if i == 1 { f.lcdc &= !0x02; } else { f.lcdc |= 0x02; } }
      1 => { f.lcdc |= 0x02; f.lcdc ^= 0x04; }
      _ => {}
    }
    if rng.chance(1, 2) { f.scx = if rng.chance(1, 3) { *rng.pick(&SC_EDGE) } else { rng.u8() }; }
    if rng.chance(1, 2) { f.scy = if rng.chance(1, 3) { *rng.pick(&SC_EDGE) } else { rng.u8() }; }
    if rng.chance(1, 2) { f.wx = if rng.chance(2, 3) { *rng.pick(&WX_EDGE) } else { rng.u8() }; }
    if rng.chance(1, 2) { f.wy = match rng.below(3) { 0 => *rng.pick(&WY_EDGE), 1 => rng.below(144) as u8, _ => rng.u8() }; }
    if rng.chance(1, 2) { f.bgp = rng.u8(); }
    if rng.chance(1, 2) { f.obp0 = rng.u8(); }
    if rng.chance(1, 2) { f.obp1 = rng.u8(); }
    // OAM: untouched, a few entries rewritten, or everything rewritten
    match rng.below(4) {
      0 => {}
      1 => { for _ in 0..(1 + rng.below(8)) { let j = rng.below(40) as usize; f.oam[4 * j] = rng.below(168) as u8; f.oam[4 * j + 1] = rng.below(176) as u8; f.oam[4 * j + 2] = rng.u8(); f.oam[4 * j + 3] = rng.u8(); } }
      2 => { f.oam = gen_oam(&mut rng); }
      _ => { f.oam = gen_oam_last_lines(&mut rng); }
    }
    // VRAM: mostly untouched; sometimes some tiles / map cells rewritten, rarely everything
    match rng.below(8) {
      0 => { for _ in 0..(1 + rng.below(64)) { let a = rng.below(0x2000) as usize; f.vram[a] = rng.u8(); } f.vram_new = true; }
      1 => { f.vram = gen_vram(&mut rng); f.vram_new = true; }
      _ => {}
    }
    frames.push(f);
  }
  Seq { k, bs: rng.next(), frames }
}

fn parse_seq(line: &str) -> Seq {
  let mut kv = std::collections::HashMap::new();
  for t in line.split_whitespace() {
    if t == "|" { break; }
    if let Some(i) = t.find('=') { kv.insert(t[..i].to_string(), t[i + 1..].to_string()); }
  }
  let n = |k: &str| -> u64 { kv.get(k).and_then(|v| v.parse::<u64>().ok()).unwrap_or(0) };
  let nf = n("nf") as usize;
  let mut frames: Vec<FrameIn> = Vec::new();
  for i in 0..nf {
    let g = |name: &str| -> u8 { n(&format!("{}{}", name, i)) as u8 };
    let (vram, vram_new) = match kv.get(&format!("vram{}", i)) {
      Some(h) => (unhex(h), true),
      None => (if i > 0 { frames[i - 1].vram.clone() } else { vec![0; 0x2000] }, false),
    };
    let oam = kv.get(&format!("oam{}", i)).map(|h| unhex(h)).unwrap_or_else(|| vec![0; 0xa0]);
    frames.push(FrameIn { lcdc: g("lcdc"), scx: g("scx"), scy: g("scy"), wx: g("wx"), wy: g("wy"), bgp: g("bgp"), obp0: g("obp0"), obp1: g("obp1"),
                          vb: n(&format!("vb{}", i)) as usize, oam, vram, vram_new });
  }
  Seq { k: n("k"), bs: n("bs"), frames }
}

pub fn run(sub: &str, opts: &Opts, w: &mut dyn Write) {
  // panics inside run_clock_cycles are caught and reported as the observation; keep stderr quiet
  std::panic::set_hook(Box::new(|_| {}));
  let seq = sub == "seq";
  if let Some(line) = opts.get("replay-line") {
    if seq || line.starts_with("c15.seq") { emit_seq(&parse_seq(line), w); } else { emit(&parse_line(line), w); }
    return;
  }
  let n = opts.get_usize("n", if seq { if opts.thorough { 6000 } else { 150 } } else if opts.thorough { 30000 } else { 300 }) as u64;
  let (si, sn) = match opts.get("shard") {
    Some(s) => { let p: Vec<&str> = s.split('/').collect(); (p[0].parse::<u64>().unwrap(), p[1].parse::<u64>().unwrap()) }
    None => (0, 1),
  };
  for k in 0..n {
    if k % sn != si { continue; }
    if seq { emit_seq(&gen_seq(opts.seed, k), w); } else { emit(&gen_case(opts.seed, k), w); }
  }
}
