//! C17: the complete joypad transition relation through the public API.
//! line: c17 a=<act> d=<dir> sa=<0|1> sd=<0|1> op=<p|r|s> arg=<n> | v0=<p1 before> v1=<p1 after> i1=<irq> i2=<irq again>
use crate::devices::joypad::{Button, Joypad};
use crate::devices::interrupts::InterruptFlag;
use crate::util::Opts;
use std::io::Write;

fn button(k: usize) -> Button {
  match k {
    0 => Button::A, 1 => Button::B, 2 => Button::Select, 3 => Button::Start,
    4 => Button::Right, 5 => Button::Left, 6 => Button::Up, _ => Button::Down,
  }
}

fn build(a: u8, d: u8, sa: bool, sd: bool) -> Joypad {
  let mut j = Joypad::new();
  for k in 0..4 { if a & (1 << k) != 0 { j.press_button(button(k)); } }
  for k in 0..4 { if d & (1 << k) != 0 { j.press_button(button(4 + k)); } }
  let v = (if sd { 0 } else { 0x10 }) | (if sa { 0 } else { 0x20 });
  j.set_value(v);
  let _ = j.get_interrupt();
  j
}

fn apply(j: &mut Joypad, op: char, arg: u8) {
  match op {
    'p' => j.press_button(button(arg as usize)),
    'r' => j.release_button(button(arg as usize)),
    _ => j.set_value(arg),
  }
}

/// all pairs of actions from every state, with the interrupt collected only AFTER both (a request must survive a later
/// action that causes no edge): c17.seq a= d= sa= sd= op= arg= op2= arg2= | v1= v2= i1= i2=
fn run_seq(w: &mut dyn Write) {
  let mut ops: Vec<(char, u8)> = Vec::new();
  for k in 0..8 { ops.push(('p', k)); }
  for k in 0..8 { ops.push(('r', k)); }
  for v in [0x00u8, 0x10, 0x20, 0x30] { ops.push(('s', v)); }
  for a in 0..16u8 { for d in 0..16u8 { for sa in 0..2 { for sd in 0..2 {
    for &(op, arg) in ops.iter() { for &(op2, arg2) in ops.iter() {
      let mut j = build(a, d, sa == 1, sd == 1);
      apply(&mut j, op, arg);
      let v1 = j.get_value();
      apply(&mut j, op2, arg2);
      let v2 = j.get_value();
      let i1 = j.get_interrupt() == InterruptFlag::joypad();
      let i2 = j.get_interrupt() == InterruptFlag::joypad();
      writeln!(w, "c17.seq a={} d={} sa={} sd={} op={} arg={} op2={} arg2={} | v1={} v2={} i1={} i2={}",
        a, d, sa, sd, op, arg, op2, arg2, v1, v2, i1 as u8, i2 as u8).unwrap();
    }}
  }}}}
}

pub fn run(sub: &str, _opts: &Opts, w: &mut dyn Write) {
  if sub == "seq" { return run_seq(w); }
  for a in 0..16u8 { for d in 0..16u8 { for sa in 0..2 { for sd in 0..2 {
    let mut ops: Vec<(char, u8)> = Vec::new();
    for k in 0..8 { ops.push(('p', k)); }
    for k in 0..8 { ops.push(('r', k)); }
    // every select byte class: the two decoded bits, with and without irrelevant bits set
    for v in [0x00u8, 0x10, 0x20, 0x30, 0xcf, 0xdf, 0xef, 0xff] { ops.push(('s', v)); }
    for (op, arg) in ops {
      let mut j = build(a, d, sa == 1, sd == 1);
      let v0 = j.get_value();
      match op {
        'p' => j.press_button(button(arg as usize)),
        'r' => j.release_button(button(arg as usize)),
        _ => j.set_value(arg),
      }
      let v1 = j.get_value();
      let i1 = j.get_interrupt() == InterruptFlag::joypad();
      let i2 = j.get_interrupt() == InterruptFlag::joypad();
      writeln!(w, "c17 a={} d={} sa={} sd={} op={} arg={} | v0={} v1={} i1={} i2={}",
        a, d, sa, sd, op, arg, v0, v1, i1 as u8, i2 as u8).unwrap();
    }
  }}}}
}
