//! C11: no guest-controlled bus access can crash the emulator. Every (header config, MBC register prefix, access kind)
//! sweep runs in a re-exec'd child process; a dead child is bisected down to the first failing access.
//! c11 type=T rom=R ram=M regs=a:v;... kind=rd|wr|rdw|wrw set=<b|all> | died=<none|index:addr:signal> dig=<digest of results> img=<digest of the full read image afterwards>
use crate::mem::{memory_read_byte, memory_read_word, memory_write_byte, memory_write_word, MemoryAreas};
use crate::roms::*;
use crate::util::{Opts, Rng};
use std::io::Write;
use std::process::{Command, Stdio};

/// pseudo-addresses: 65536 = let 64*v clocks pass, 65537 = let 4*v clocks pass (MemoryAreas::run_clock_cycles, as in c10)
pub const REG_PREFIXES: [&[(u32, u8)]; 21] = [
  &[],
  &[(0x2000, 0x00)],
  &[(0x2000, 0x1f)],
  &[(0x2000, 0x7f)],
  &[(0x2000, 0xff), (0x4000, 0x03)],
  &[(0x4000, 0x03)],
  &[(0x6000, 0x01), (0x4000, 0x03), (0x2000, 0x00)],
  &[(0x6000, 0x01), (0x4000, 0x02), (0x2000, 0x7f)],
  &[(0x6000, 0x01), (0x4000, 0x01)],
  &[(0x0000, 0x0a), (0x4000, 0x03), (0x6000, 0x01)],
  &[(0x2000, 0x20), (0x4000, 0x02)],
  &[(0x3fff, 0x55), (0x5fff, 0xfe), (0x7fff, 0xff)],
  // device states that only exist after time has passed: the timer enabled, TIMA at its last value, the divider bit
  // selected by TAC high (a DIV or TAC write is then an edge for the timer); the LCD on and inside a line; an OAM DMA
  // under way; TIMA one tick before its overflow
  &[(0xff07, 0x05), (0xff05, 0xff), (65537, 2)],
  &[(0xff07, 0x06), (0xff05, 0xff), (65537, 8)],
  &[(0xff07, 0x07), (0xff05, 0xff), (65537, 32)],
  &[(0xff07, 0x04), (0xff05, 0xff), (65537, 128)],
  &[(0xff40, 0x91), (0xff41, 0x78), (0xff45, 0x01), (65536, 9), (65537, 30)],
  &[(0x2000, 0x03), (0xff46, 0x40), (65537, 10)],
  &[(0xff06, 0xff), (0xff07, 0x05), (0xff05, 0xff), (65537, 3), (0xffff, 0x1f)],
  // registers that only a Color Game Boy has (work-RAM bank, VRAM bank, speed switch, infrared, object priority): on this
  // machine they are unassigned I/O and must not move any window
  &[(0xff70, 0x02)],
  &[(0xff4f, 0x01), (0xff70, 0x07), (0xff4d, 0x01), (0xff56, 0xff), (0xff6c, 0x01), (0xff51, 0xff), (0xff55, 0x7f)],
];

pub fn addr_set(all: bool, seed: u64) -> Vec<u16> {
  if all {
    // writes to 0x0000..0x7FFF come last so that the register prefix stays in force for the RAM/IO part
    let mut v: Vec<u16> = (0x8000u32..0x10000).map(|a| a as u16).collect();
    v.extend((0u32..0x8000).map(|a| a as u16));
    v
  } else {
    let mut v: Vec<u16> = BOUNDARY.iter().cloned().filter(|a| *a >= 0x8000).collect();
    let mut rng = Rng::new(seed ^ 0xadd5);
    for _ in 0..200 { v.push(0x8000 | rng.u16()); }
    v.extend(BOUNDARY.iter().cloned().filter(|a| *a < 0x8000));
    for _ in 0..56 { v.push(rng.u16() & 0x7fff); }
    v
  }
}

fn wv(a: u16) -> u8 { (a as u32 * 7 + 3) as u8 }
fn wv16(a: u16) -> u16 { (a as u32 * 257 + 1) as u16 }

pub const KINDS: [&str; 4] = ["rd", "wr", "rdw", "wrw"];

fn sweep(p: *mut MemoryAreas, kind: &str, addrs: &[u16]) -> u64 {
  let mut h = FNV0;
  for &a in addrs.iter() {
    match kind {
      "rd" => { h = fnv(h, memory_read_byte(p, a)); },
      "wr" => { memory_write_byte(p, a, wv(a)); },
      "rdw" => { let v = memory_read_word(p, a); h = fnv(fnv(h, v as u8), (v >> 8) as u8); },
      _ => { memory_write_word(p, a, wv16(a)); },
    }
  }
  h
}

/// child: runs sweeps `from..` (or only sweep `only`, accesses [0, upto)) of one header configuration, each on a
/// fresh MemoryAreas; prints `BEGIN i` before and `END i dig img` after each sweep
pub fn child(opts: &Opts) {
  let t = opts.get_usize("type", 0) as u8; let r = opts.get_usize("rom", 0) as u8; let m = opts.get_usize("ram", 0) as u8;
  let all = opts.get("set").map(|s| s == "all").unwrap_or(false);
  let addrs = addr_set(all, opts.seed);
  let nsweeps = REG_PREFIXES.len() * KINDS.len();
  let (lo, hi, upto) = match opts.get("only") {
    Some(o) => { let i: usize = o.parse().unwrap(); (i, i + 1, opts.get_usize("upto", addrs.len()).min(addrs.len())) },
    None => (opts.get_usize("from", 0), nsweeps, addrs.len()),
  };
  // the child reports on fd 2 (fd 1 is /dev/null, see main.rs); the parent reads the child's stderr
  let out = std::io::stderr();
  for i in lo..hi {
    let (ri, kind) = (i / KINDS.len(), KINDS[i % KINDS.len()]);
    { let mut o = out.lock(); writeln!(o, "BEGIN {}", i).unwrap(); o.flush().unwrap(); }
    let mut mem = mk_mem(t, r, m, &[]);
    let p = &mut mem as *mut MemoryAreas;
    for (a, v) in REG_PREFIXES[ri].iter() {
      match *a {
        65536 => mem.run_clock_cycles(crate::timing::ClockCycles::new(64 * *v as usize)),
        65537 => mem.run_clock_cycles(crate::timing::ClockCycles::new(4 * *v as usize)),
        _ => memory_write_byte(p, *a as u16, *v),
      }
    }
    let h = sweep(p, kind, &addrs[..upto]);
    let (ds, _) = crate::s_c10::image_digests(p);
    let mut img = FNV0;
    for d in ds { for k in 0..8 { img = fnv(img, (d >> (8 * k)) as u8); } }
    { let mut o = out.lock(); writeln!(o, "END {} dig={} img={}", i, h, img).unwrap(); o.flush().unwrap(); }
  }
}

/// runs a child; returns (completed sweeps: index -> "dig=.. img=..", sweep in progress at death, exit description)
fn spawn(exe: &std::path::Path, t: u8, r: u8, m: u8, set: &str, seed: u64, extra: &[String]) -> (Vec<(usize, String)>, Option<usize>, String) {
  let mut c = Command::new(exe);
  c.arg("c11.child").arg("--type").arg(t.to_string()).arg("--rom").arg(r.to_string()).arg("--ram").arg(m.to_string())
    .arg("--set").arg(set).arg("--seed").arg(seed.to_string()).args(extra).env("RUST_BACKTRACE", "0");
  let out = c.stdin(Stdio::null()).stdout(Stdio::null()).stderr(Stdio::piped()).output().unwrap();
  let so = String::from_utf8_lossy(&out.stderr).to_string();
  let mut done = Vec::new();
  let mut open: Option<usize> = None;
  for l in so.lines() {
    let mut it = l.splitn(3, ' ');
    match (it.next(), it.next(), it.next()) {
      (Some("BEGIN"), Some(i), _) => open = i.parse().ok(),
      (Some("END"), Some(i), Some(rest)) => { done.push((i.parse().unwrap(), rest.to_string())); open = None; },
      _ => (),
    }
  }
  use std::os::unix::process::ExitStatusExt;
  let why = if out.status.success() { String::from("ok") } else {
    match out.status.signal() { Some(s) => format!("sig{}", s), None => format!("exit{}", out.status.code().unwrap_or(-1)) } };
  (done, open, why)
}

/// all sweeps of one header configuration on one address set; one protocol line per sweep
/// deaths pinpointed so far by this process: after a few, further dying sweeps are reported without bisection and the
/// stream stops early (the violation is established; bisecting hundreds of crashes only costs time)
static DEATHS: std::sync::atomic::AtomicUsize = std::sync::atomic::AtomicUsize::new(0);
const MAX_PINPOINTED: usize = 3;

fn run_config(exe: &std::path::Path, t: u8, r: u8, m: u8, set: &str, opts: &Opts, w: &mut dyn Write) {
  use std::sync::atomic::Ordering;
  if DEATHS.load(Ordering::Relaxed) >= 2 * MAX_PINPOINTED { return; }
  let addrs = addr_set(set == "all", opts.seed);
  let nsweeps = REG_PREFIXES.len() * KINDS.len();
  let mut results: Vec<Option<String>> = vec![None; nsweeps];
  let mut from = 0usize;
  while from < nsweeps {
    let (done, open, why) = spawn(exe, t, r, m, set, opts.seed, &[String::from("--from"), from.to_string()]);
    for (i, s) in done { results[i] = Some(format!("died=none {}", s)); }
    match open {
      Some(i) => {
        if DEATHS.fetch_add(1, Ordering::Relaxed) >= MAX_PINPOINTED {
          results[i] = Some(format!("died=unbisected:0:{} dig=0 img=0", why));
          from = nsweeps;
          continue;
        }
        // bisect the dying sweep: smallest number of accesses that kills the child
        let (mut lo, mut hi) = (0usize, addrs.len());
        while hi - lo > 1 {
          let mid = (lo + hi) / 2;
          let (d, _, _) = spawn(exe, t, r, m, set, opts.seed, &[String::from("--only"), i.to_string(), String::from("--upto"), mid.to_string()]);
          if d.len() == 1 { lo = mid; } else { hi = mid; }
        }
        let (d0, _, _) = spawn(exe, t, r, m, set, opts.seed, &[String::from("--only"), i.to_string(), String::from("--upto"), String::from("0")]);
        if d0.len() == 1 {
          results[i] = Some(format!("died={}:{}:{} dig=0 img=0", hi - 1, addrs[hi - 1], why));
        } else {
          results[i] = Some(format!("died=setup-or-image:0:{} dig=0 img=0", why));
        }
        from = i + 1;
      },
      None => { from = nsweeps; },
    }
  }
  for i in 0..nsweeps {
    if results[i].is_none() { continue; }   // not run (stopped after a death)
    let (ri, kind) = (i / KINDS.len(), KINDS[i % KINDS.len()]);
    let regs: Vec<String> = REG_PREFIXES[ri].iter().map(|(a, v)| format!("{}:{}", a, v)).collect();
    writeln!(w, "c11 type={} rom={} ram={} banks={} ramb={} regs={} kind={} set={} seed={} | {}", t, r, m, rom_bank_count(r), header(t, r, m).get_ram_size_bytes(), regs.join(";"), kind, set, opts.seed,
      results[i].clone().unwrap_or_else(|| String::from("died=unknown dig=0 img=0"))).unwrap();
  }
}

/// quick: 150 header configurations on the boundary address set. thorough: all 504 configurations (7 supported
/// types x 12 ROM-size codes x 6 RAM-size codes) on the boundary set, and every 13th of them (38 configurations
/// covering every type, every ROM code and every RAM code) additionally on all 65 536 addresses.
pub fn run(sub: &str, opts: &Opts, w: &mut dyn Write) {
  if sub == "child" { child(opts); return; }
  let exe = std::env::current_exe().unwrap();
  let (shard, nshards) = opts.shard();
  let types: Vec<u8> = if opts.thorough { TYPES.to_vec() } else { vec![0x00, 0x01, 0x03, 0x11, 0x13] };
  let roms: Vec<u8> = if opts.thorough { ROM_CODES.to_vec() } else { vec![0, 1, 4, 6, 0x52] };
  let mut idx = 0usize;
  for &t in types.iter() { for &r in roms.iter() { for &m in RAM_CODES.iter() {
    idx += 1;
    if idx % nshards != shard { continue; }
    run_config(&exe, t, r, m, "b", opts, w);
    if opts.thorough && idx % 13 == 0 { run_config(&exe, t, r, m, "all", opts, w); }
  }}}
}
