//! C09: time conservation and progress of `Core::update` over generated programs.
//!
//! c09         (non-jit build: one instruction per step)  } generated programs (counted loops, CALL/RET, CALL cc / JP cc,
//! c09.blocks  (jit build: one block per step)            } PUSH/POP, ALU, EI/DI, software-requested interrupts, HALT with
//!                                                          the timer programmed through TMA/TAC/IE, OAM DMA) placed in WRAM
//!                                                          at 0xC000, interrupt vectors in ROM patched to PUSH AF; INC A; POP AF; RETI,
//!                                                          stepped with the real `Core::update`; after every step the clocks the
//!                                                          timer has received (hook `verif_state().0`, mod 65536 — programs never
//!                                                          write DIV), `registers.cycles`, `last_block_cycle_length`, LY, all
//!                                                          registers, IME, run state, IF.
//! c09.frame   (jit build) `Core::run_frame`'s two polling loops re-run with a step cap on NOP-sled programs whose block
//!             length is a parameter: short blocks must end within two frame periods; a 1463-cycle block (17556/12) steps
//!             over every VBlank window (DESIGN §5 C09 F.).
//!
//! c09[.blocks] prog=<hex> init=af,bc,de,hl steps=N | t=<div,cyc,lbc,ly,ip,sp,af,bc,de,hl,ime,run,if per step ; ...>
//! c09.frame n0= n1= cap= | e1= s1= k1= e2= s2= k2= mx=      (ended, steps, clocks of the two run_frame calls; longest step)
use crate::emulator::{Core, InterruptState, RunState};
use crate::mem::{memory_write_byte, MemoryAreas};
use crate::roms::*;
use crate::util::{hex, Opts, Rng};
use std::io::Write;

/// what every interrupt vector holds: PUSH AF; INC A; POP AF; RETI
pub const HANDLER: [u8; 4] = [0xf5, 0x3c, 0xf1, 0xd9];

fn ime_code(s: &InterruptState) -> u32 { match s { InterruptState::Enabled => 0, InterruptState::Disabled => 1, InterruptState::EnableNext => 2 } }
fn run_code(s: &RunState) -> u32 { match s { RunState::Run => 0, RunState::Stop => 1, RunState::Halt => 2 } }

fn setup(prog: &[u8], init: [u16; 4]) -> Core {
  let mut core = mk_core(0x03, 1, 3);
  for i in 0..0x100 { core.memory.rom[i] = 0x00; }
  for v in [0x40usize, 0x48, 0x50, 0x58, 0x60] { for (k, b) in HANDLER.iter().enumerate() { core.memory.rom[v + k] = *b; } }
  let p = &mut core.memory as *mut MemoryAreas;
  for (i, b) in prog.iter().enumerate() { memory_write_byte(p, 0xc000u16 + i as u16, *b); }
  core.registers.af = init[0] as u32; core.registers.bc = init[1] as u32;
  core.registers.de = init[2] as u32; core.registers.hl = init[3] as u32;
  core.registers.sp = 0xdff0; core.registers.ip = 0xc000; core.registers.cycles = 0;
  core.interrupts_enabled = InterruptState::Disabled;
  core.run_state = RunState::Run;
  core
}

/// A-register / flag operations that touch neither H, L nor memory writes
fn gen_alu(rng: &mut Rng, p: &mut Vec<u8>, n: u64) {
  for _ in 0..n {
    match rng.below(8) {
      0 => { let r = *rng.pick(&[0u8, 1, 2, 3, 4, 5, 6, 7]); p.push(0x80 + 8 * (rng.below(8) as u8) + r); }   // ALU A,r / (HL)
      1 => { p.push(*rng.pick(&[0xc6u8, 0xce, 0xd6, 0xde, 0xe6, 0xee, 0xf6, 0xfe])); p.push(rng.u8()); }           // ALU A,n
      2 => p.push(*rng.pick(&[0x04u8, 0x05, 0x0c, 0x0d, 0x14, 0x15, 0x1c, 0x1d, 0x3c, 0x3d])),                    // INC/DEC B C D E A
      3 => p.push(*rng.pick(&[0x07u8, 0x0f, 0x17, 0x1f, 0x27, 0x2f, 0x37, 0x3f])),                                // rotates, DAA, CPL, SCF, CCF
      4 => { let r = *rng.pick(&[0u8, 1, 2, 3, 7, 6]); p.push(0xcb); p.push(8 * (rng.below(16) as u8) + r); }     // CB rot/shift/BIT on B C D E A (HL)
      5 => { p.push(*rng.pick(&[0x06u8, 0x0e, 0x16, 0x1e, 0x3e])); p.push(rng.u8()); }                            // LD r,n
      6 => p.push(*rng.pick(&[0x03u8, 0x0b, 0x13, 0x1b, 0x00])),                                                  // INC/DEC BC DE, NOP
      _ => p.push(*rng.pick(&[0x41u8, 0x4a, 0x53, 0x78, 0x47, 0x7e, 0x46, 0x56])),                                // LD r,r' / r,(HL)
    }
  }
}

pub fn gen_prog(rng: &mut Rng) -> Vec<u8> {
  let mut p: Vec<u8> = vec![0xc3, 0, 0];                       // JP main
  let nsubs = 1 + rng.below(3) as usize;
  let mut subs: Vec<u16> = Vec::new();
  for _ in 0..nsubs {
    subs.push(0xc000 + p.len() as u16);
    let n = rng.below(4);
    gen_alu(rng, &mut p, n);
    if rng.chance(1, 3) { p.push(*rng.pick(&[0xc0u8, 0xc8, 0xd0, 0xd8])); }   // RET cc
    if rng.chance(1, 4) { p.push(0xc5); p.push(0xc1); }                       // PUSH BC; POP BC
    p.push(0xc9);
  }
  let main = 0xc000 + p.len() as u16;
  p[1] = (main & 0xff) as u8; p[2] = (main >> 8) as u8;
  p.extend_from_slice(&[0x31, 0xf0, 0xdf, 0x21, 0x00, 0xd0]);   // LD SP,0xDFF0 ; LD HL,0xD000
  let timer = rng.chance(3, 4);
  let tac = if timer { *rng.pick(&[4u8, 5, 6, 7, 5, 6]) } else { 0 };
  if timer {
    p.extend_from_slice(&[0x3e, *rng.pick(&[0x00u8, 0x80, 0xc0, 0xf0, 0xfc, 0xff]), 0xe0, 0x06]);     // TMA
    p.extend_from_slice(&[0x3e, rng.u8(), 0xe0, 0x05]);                                                // TIMA
    p.extend_from_slice(&[0x3e, tac, 0xe0, 0x07]);                                                     // TAC
  }
  let mut ie = if timer { *rng.pick(&[0x04u8, 0x04, 0x04, 0x0c, 0x00]) } else { *rng.pick(&[0x00u8, 0x08, 0x10]) };
  // LCD interrupt sources: STAT enables, LYC (the run starts at LY=144, dot 0), VBlank/STAT bits of IE
  let lcd = rng.chance(1, 2);
  let mut stat_en = 0u8;
  if lcd {
    stat_en = *rng.pick(&[0x08u8, 0x10, 0x20, 0x40, 0x28, 0x48, 0x78, 0x00]);
    p.extend_from_slice(&[0x3e, stat_en, 0xe0, 0x41]);   // STAT
    p.extend_from_slice(&[0x3e, *rng.pick(&[144u8, 145, 146, 147, 148, 150, 153, 0, 1, 2, 5]), 0xe0, 0x45]);     // LYC
    ie |= *rng.pick(&[0x02u8, 0x02, 0x03, 0x01, 0x00]);
  }
  // joypad: select a button group (or both / none) so that injected key presses pull an input line low; enable its interrupt
  if rng.chance(1, 2) { p.extend_from_slice(&[0x3e, *rng.pick(&[0x10u8, 0x20, 0x00, 0x30]), 0xe0, 0x00]); if rng.chance(1, 2) { ie |= 0x10; } }
  if rng.chance(1, 4) { ie |= 0xe0; }                            // the unconnected upper bits of IE are stored, never active
  p.extend_from_slice(&[0x3e, ie, 0xe0, 0xff]);                 // IE
  // something that will wake a HALT within a line or so: the running timer, or a STAT mode-0/mode-2 interrupt
  let waker = (timer && ie & 4 != 0) || (ie & 2 != 0 && stat_en & 0x28 != 0);
  if rng.chance(2, 3) { p.push(0xfb); }                          // EI
  let nblocks = 3 + rng.below(14);
  let mut hl_incs = 0;
  for _ in 0..nblocks {
    match rng.below(15) {
      14 => {                                                                                           // the display switched off and on again: the LCD's clock does not care
        p.extend_from_slice(&[0x3e, rng.u8() & 0x7f, 0xe0, 0x40]);
        for _ in 0..rng.below(4) { p.push(0x00); }
        p.extend_from_slice(&[0x3e, 0x80 | rng.u8(), 0xe0, 0x40]);
      },
      13 => {                                                                                           // OAM DMA still running when the CPU suspends / goes on
        p.extend_from_slice(&[0x3e, *rng.pick(&[0xc0u8, 0xd0, 0xc1, 0xff]), 0xe0, 0x46]);
        if waker && rng.chance(1, 2) { p.push(0x76); } else { for _ in 0..rng.below(6) { p.push(0x00); } }
      },
      0 => { p.extend_from_slice(&[0x06, 1 + rng.below(40) as u8, 0x05, 0x20, 0xfd]); }                 // LD B,n ; L: DEC B ; JR NZ,L
      1 => { let s = *rng.pick(&subs); p.extend_from_slice(&[0xcd, (s & 0xff) as u8, (s >> 8) as u8]); } // CALL
      2 => { let s = *rng.pick(&subs); p.extend_from_slice(&[*rng.pick(&[0xc4u8, 0xcc, 0xd4, 0xdc]), (s & 0xff) as u8, (s >> 8) as u8]); }
      3 => { p.extend_from_slice(*rng.pick(&[&[0xc5u8, 0xd1][..], &[0xf5, 0xf1][..], &[0xd5, 0xc5, 0xd1, 0xc1][..]])); }
      4 | 5 => { let n = 1 + rng.below(6); gen_alu(rng, &mut p, n); }
      6 => p.push(*rng.pick(&[0xfbu8, 0xf3, 0xfb])),
      7 => { p.extend_from_slice(&[0x3e, *rng.pick(&[0x04u8, 0x04, 0x08, 0x10, 0x1c, 0xe4, 0xe0, 0xe8]), 0xe0, 0x0f]); } // request through IF (upper bits do not exist)
      8 => { if waker { p.push(0x76); } else { p.push(0x00); } }                                        // HALT (woken by the timer / a STAT mode interrupt)
      9 => { p.extend_from_slice(&[0x3e, *rng.pick(&[0xc0u8, 0xd0, 0xc1]), 0xe0, 0x46, 0x06, 1 + rng.below(60) as u8, 0x05, 0x20, 0xfd]); } // OAM DMA + delay
      10 => {                                                                                           // JP cc over NOPs
        let k = 1 + rng.below(3) as u16;
        let t = 0xc000 + p.len() as u16 + 3 + k;
        p.extend_from_slice(&[*rng.pick(&[0xc2u8, 0xca, 0xd2, 0xda, 0xc3]), (t & 0xff) as u8, (t >> 8) as u8]);
        for _ in 0..k { p.push(0x00); }
      }
      11 => { if hl_incs < 200 { hl_incs += 1; p.extend_from_slice(&[0x77, 0x23, 0x7e]); } }            // LD (HL),A ; INC HL ; LD A,(HL)
      _ => { let k = 1 + rng.below(2) as u8; p.extend_from_slice(&[*rng.pick(&[0x20u8, 0x28, 0x30, 0x38, 0x18]), k]); for _ in 0..k { p.push(0x00); } } // JR cc over NOPs
    }
  }
  if ie & 0x1f != 0 && rng.chance(1, 6) {
    // a CANCELLED dispatch: SP = 0, so the push of PC's high byte (0xC0) lands on IE and removes the request's enable;
    // PC goes to 0x0000, nothing is acknowledged, five cycles are charged.  The NOP sled below 0x40 runs into the
    // handler, whose RETI returns to the interrupted PC (low byte from 0xFFFE, high byte = IE as written).
    let bit = 1u8 << (ie & 0x1f).trailing_zeros();
    p.extend_from_slice(&[0xf3, 0x31, 0x00, 0x00, 0x3e, bit, 0xe0, 0x0f, 0xfb, 0x00, 0x00]);            // DI ; LD SP,0 ; IF=bit ; EI ; NOP ; NOP
  }
  if waker && ie & 0x1f != 0 && rng.chance(2, 3) { p.extend_from_slice(&[0x76, 0x18, 0xfd]); }       // L: HALT ; JR L
  else if rng.chance(1, 4) { p.extend_from_slice(&[0x10, 0x00, 0x18, 0xfc]); }                         // L: STOP ; JR L
  else { p.extend_from_slice(&[0x00, 0x18, 0xfd]); }                                                   // L: NOP ; JR L
  p
}

fn button(k: usize) -> crate::devices::joypad::Button {
  use crate::devices::joypad::Button;
  match k { 0 => Button::A, 1 => Button::B, 2 => Button::Select, 3 => Button::Start, 4 => Button::Right, 5 => Button::Left, 6 => Button::Up, _ => Button::Down }
}

/// `evs`: key events injected between steps, (step index, press?, button 0..7) in step order
fn run_prog(name: &str, prog: &[u8], init: [u16; 4], steps: usize, evs: &[(usize, bool, usize)], w: &mut dyn Write) {
  let mut core = setup(prog, init);
  let mut t: Vec<String> = Vec::with_capacity(steps);
  let mut next_ev = 0usize;
  for k in 0..steps {
    while next_ev < evs.len() && evs[next_ev].0 == k {
      let (_, press, b) = evs[next_ev];
      if press { core.memory.io.joypad.press_button(button(b)); } else { core.memory.io.joypad.release_button(button(b)); }
      next_ev += 1;
    }
    core.update();
    let div = core.memory.io.timer.verif_state().0 & 0xffff;
    let dma = core.memory.oam_dma.map(|d| d.verif_state().1 as u32).unwrap_or(160);
    let mut oamd = crate::roms::FNV0;
    for b in core.memory.oam_ram.iter() { oamd = crate::roms::fnv(oamd, *b); }
    t.push(format!("{},{},{},{},{},{},{},{},{},{},{},{},{},{},{},{},{}", div, { core.registers.cycles }, core.last_block_cycle_length,
      core.memory.io.video.get_ly(), { core.registers.ip }, { core.registers.sp }, { core.registers.af }, { core.registers.bc },
      { core.registers.de }, { core.registers.hl }, ime_code(&core.interrupts_enabled), run_code(&core.run_state),
      core.memory.io.interrupt_flag.as_u8(), core.memory.io.video.get_lcd_status(), core.memory.io.video.get_frames_completed(), dma, oamd));
  }
  let es: Vec<String> = evs.iter().map(|(k, p, b)| format!("{}:{}:{}", k, if *p { 1 } else { 0 }, b)).collect();
  writeln!(w, "{} prog={} init={},{},{},{} steps={} ev={} | t={}", name, hex(prog), init[0], init[1], init[2], init[3], steps, es.join(","), t.join(";")).unwrap();
}

fn frame_program(n0: usize, n1: usize, lcd_off: bool) -> Vec<u8> {
  // [XOR A ; LDH (0x40),A  -- LCDC = 0, display off] n0 NOPs ; JP loop ; loop: n1 NOPs ; JP loop
  let mut prog: Vec<u8> = if lcd_off { vec![0xaf, 0xe0, 0x40] } else { vec![] };
  for _ in 0..n0 { prog.push(0x00); }
  let lp = 0xc000 + prog.len() as u16 + 3;
  prog.extend_from_slice(&[0xc3, (lp & 0xff) as u8, (lp >> 8) as u8]);
  for _ in 0..n1 { prog.push(0x00); }
  prog.extend_from_slice(&[0xc3, (lp & 0xff) as u8, (lp >> 8) as u8]);
  prog
}

/// child process: the REAL `Core::run_frame`, twice, under a wall-clock alarm (a call that never returns is killed by SIGALRM);
/// reports on fd 2 after each call: frames completed by the LCD during the call, LY and mode at return
pub fn frame_child(opts: &Opts) {
  let (n0, n1) = (opts.get_usize("n0", 0), opts.get_usize("n1", 0));
  let rl = opts.get_usize("rl", 0);
  let mut core = if rl != 0 {
    // the loop sits in ROM in the last two bytes of a 16 KiB region (JR -2 at `rl`); the program in work RAM jumps there
    let mut c = setup(&[0xc3, (rl & 0xff) as u8, (rl >> 8) as u8], [0x01b0, 0x0013, 0x00d8, 0x014d]);
    c.memory.rom[rl] = 0x18; c.memory.rom[rl + 1] = 0xfe;
    c
  } else { setup(&frame_program(n0, n1, opts.get_usize("off", 0) == 1), [0x01b0, 0x0013, 0x00d8, 0x014d]) };
  unsafe { libc::alarm(opts.get_usize("alarm", 8) as u32); }
  let err = std::io::stderr();
  for k in 1..=2 {
    let f0 = core.memory.io.video.get_frames_completed();
    core.run_frame();
    let f1 = core.memory.io.video.get_frames_completed();
    let mut e = err.lock();
    writeln!(e, "R{} f={} ly={} mode={}", k, f1 - f0, core.memory.io.video.get_ly(), core.memory.io.video.get_current_mode()).unwrap();
    e.flush().unwrap();
  }
}

fn frame_probe(n0: usize, n1: usize, cap: usize, off: usize, w: &mut dyn Write) { frame_probe_rl(n0, n1, cap, off, 0, w) }

fn frame_probe_rl(n0: usize, n1: usize, cap: usize, off: usize, rl: usize, w: &mut dyn Write) {
  let exe = std::env::current_exe().unwrap();
  let out = std::process::Command::new(&exe).arg("c09.framechild").arg("--n0").arg(n0.to_string()).arg("--n1").arg(n1.to_string())
    .arg("--alarm").arg("8").arg("--off").arg(off.to_string()).arg("--rl").arg(rl.to_string()).stdin(std::process::Stdio::null()).stdout(std::process::Stdio::null()).stderr(std::process::Stdio::piped())
    .output().unwrap();
  let so = String::from_utf8_lossy(&out.stderr).to_string();
  let mut r: Vec<(u32, u64, u32, u32)> = vec![(0, 0, 0, 0), (0, 0, 0, 0)];
  for l in so.lines() {
    let t: Vec<&str> = l.split_whitespace().collect();
    if t.len() == 4 && (t[0] == "R1" || t[0] == "R2") {
      let g = |x: &str| x.split('=').nth(1).and_then(|v| v.parse::<u64>().ok()).unwrap_or(0);
      r[if t[0] == "R1" { 0 } else { 1 }] = (1, g(t[1]), g(t[2]) as u32, g(t[3]) as u32);
    }
  }
  writeln!(w, "c09.frame n0={} n1={} cap={} off={} rl={} | e1={} f1={} ly1={} m1={} e2={} f2={} ly2={} m2={} blk={}", n0, n1, cap, off, rl,
    r[0].0, r[0].1, r[0].2, r[0].3, r[1].0, r[1].1, r[1].2, r[1].3, 4 * (n1 + 4)).unwrap();
}

fn unhex(s: &str) -> Vec<u8> {
  (0..s.len() / 2).map(|i| u8::from_str_radix(&s[2 * i..2 * i + 2], 16).unwrap_or(0)).collect()
}

/// value of `key=` among the inputs of a protocol line
fn field<'a>(line: &'a str, key: &str) -> &'a str {
  let ins = line.split(" | ").next().unwrap_or("");
  for tok in ins.split_whitespace() {
    if let Some(v) = tok.strip_prefix(key) { if let Some(v) = v.strip_prefix('=') { return v; } }
  }
  ""
}

pub fn run(sub: &str, opts: &Opts, w: &mut dyn Write) {
  if sub == "framechild" { return frame_child(opts); }
  if let Some(line) = opts.get("replay-line") {
    // re-run exactly the case whose inputs are in that line
    if sub == "frame" {
      let g = |k: &str| field(line, k).parse::<usize>().unwrap_or(0);
      frame_probe_rl(g("n0"), g("n1"), g("cap"), g("off"), g("rl"), w);
    } else {
      let prog = unhex(field(line, "prog"));
      let iv: Vec<u16> = field(line, "init").split(',').map(|x| x.parse::<u16>().unwrap_or(0)).collect();
      let init = [iv.get(0).copied().unwrap_or(0), iv.get(1).copied().unwrap_or(0), iv.get(2).copied().unwrap_or(0), iv.get(3).copied().unwrap_or(0)];
      let steps = field(line, "steps").parse::<usize>().unwrap_or(0);
      let evs: Vec<(usize, bool, usize)> = field(line, "ev").split(',').filter(|x| !x.is_empty()).map(|e| {
        let v: Vec<usize> = e.split(':').map(|x| x.parse::<usize>().unwrap_or(0)).collect();
        (v.get(0).copied().unwrap_or(0), v.get(1).copied().unwrap_or(0) == 1, v.get(2).copied().unwrap_or(0)) }).collect();
      run_prog(if sub == "blocks" { "c09.blocks" } else { "c09" }, &prog, init, steps, &evs, w);
    }
    return;
  }
  let (shard, nshards) = opts.shard();
  let mut rng = Rng::new(opts.seed ^ 0xc09);
  if sub == "frame" {
    // (n0, n1): first block n0 + 4 machine cycles, loop block n1 + 4
    let mut cases: Vec<(usize, usize)> = vec![(10, 10), (100, 300), (1136, 1136), (5, 1100), (1196, 1459), (1300, 1459), (1196, 2922)];
    let n = if opts.thorough { 60 } else { 12 };
    for _ in 0..n { cases.push((rng.below(1150) as usize, rng.below(1130) as usize)); }
    for (i, (n0, n1)) in cases.iter().enumerate() {
      if i % nshards != shard { continue; }
      // cap: 40 frames' worth of the longer block, at least 4 frames of 1-cycle steps
      let per = (*n1 + 4).min(*n0 + 4).max(1);
      let cap = if per > 200 { 40 * 17556 / per + 50 } else { 4 * 17556 };
      frame_probe(*n0, *n1, cap, i % 3 / 2, w);   // every third probe switches the display off first (LCDC bit 7 clear)
    }
    // polling loops that sit in the last bytes of a 16 KiB ROM region: every block starts one or two bytes before the
    // region's end (0x3FFE / 0x7FFE: JR -2)
    if shard == 0 { for rl in [0x3ffeusize, 0x7ffe] { frame_probe_rl(0, 0, 4 * 17556, 0, rl, w); } }
    return;
  }
  let name = if sub == "blocks" { "c09.blocks" } else { "c09" };
  let (nprog, steps) = if opts.thorough { (6000usize, 1500usize) } else { (200usize, 1000usize) };   // a line stays below the argv limit for --replay-line
  for i in 0..nprog {
    let prog = gen_prog(&mut rng);
    let init = [rng.u16() & 0xfff0, rng.u16(), rng.u16(), 0u16];
    // key events: a few presses / releases at random steps (ascending)
    let mut evs: Vec<(usize, bool, usize)> = Vec::new();
    if rng.chance(1, 2) {
      let n = 1 + rng.below(8) as usize;
      let mut ks: Vec<usize> = (0..n).map(|_| rng.below(steps as u64) as usize).collect();
      ks.sort();
      for k in ks { evs.push((k, rng.chance(2, 3), rng.below(8) as usize)); }
    }
    if i % nshards != shard { continue; }
    run_prog(name, &prog, init, steps, &evs, w);
  }
}
