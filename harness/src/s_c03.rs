//! C03: transparency of the translation cache across bank switches. The same history (run a block / jump to an entry
//! point / write a bank register) is executed through the real `Core::run_code_block` of THIS build (jit feature: warm
//! cache and a cache emptied before every block; otherwise the interpreter); the runner joins the lines of the two builds.
//! c03 cfg=T,R,M hist=g3,r,w8448:2,r,... | o=<af,bc,de,hl,sp,ip,bank,ip0,bank0,hit,bytes,cartwrite per r ;...> [c=<same with a cold cache>]
use crate::cache::CodeCache;
use crate::emulator::Core;
use crate::mem::{memory_write_byte, MemoryAreas};
use crate::roms::*;
use crate::util::{Opts, Rng};
use std::io::Write;

pub const N_ENTRY: usize = 8;

/// code patched into the ROM image: bank 0 has plain blocks and bank-switching trampolines, every other bank has
/// blocks at the same addresses that differ from bank to bank
pub fn fill_rom(core: &mut Core, banks: usize) {
  let rom = &mut core.memory.rom;
  // make every stray path safe: NOP sleds with a `JP 0x0150` every 32 bytes (not across region ends)
  for i in 0..rom.len() { rom[i] = 0x00; }
  let mut i = 0x20usize;
  while i + 3 < rom.len() { if (i & 0x3fff) < 0x3ff0 { rom[i] = 0xc3; rom[i + 1] = 0x50; rom[i + 2] = 0x01; } i += 0x20; }
  let put = |rom: &mut Box<[u8]>, at: usize, bytes: &[u8]| { for (i, b) in bytes.iter().enumerate() { rom[at + i] = *b; } };
  for k in 0..N_ENTRY {
    // bank 0, plain: LD A,k ; INC B ; terminator
    let at = 0x0150 + k * 0x40;
    put(rom, at, &[0x3e, k as u8, 0x04]);
    match k % 4 { 0 => put(rom, at + 3, &[0xc3, 0x50, 0x01]), 1 => put(rom, at + 3, &[0xc9]), 2 => put(rom, at + 3, &[0x18, 0x02]), _ => put(rom, at + 3, &[0xcf]) }
    // bank 0, trampoline: LD A,<bank> ; LD (0x2100),A ; JP 0x4000 + k*0x40
    let at = 0x1000 + k * 0x40;
    let target = 0x4000 + k * 0x40;
    put(rom, at, &[0x3e, ((k * 5 + 2) % 64) as u8, 0xea, 0x00, 0x21, 0xc3, (target & 0xff) as u8, (target >> 8) as u8]);
  }
  put(rom, 0x0000, &[0xc3, 0x50, 0x01]); // a stray RET to 0 goes back to the first entry
  put(rom, 0x0008, &[0x0c, 0xc9]); // RST 08: INC C ; RET
  // a block that runs up to the end of bank 0
  // (its last instruction is the three-byte LD BC,nn at 0x3FFD..0x3FFF: the next instruction starts at 0x4000, in the
  // other region, where the block must end although that address is translatable)
  put(rom, 0x3ff8, &[0x3e, 0x77, 0x04, 0x0c, 0x14, 0x01, 0x34, 0x12]);
  for b in 1..banks {
    for k in 0..N_ENTRY {
      let at = b * 0x4000 + k * 0x40;
      put(rom, at, &[0x3e, ((b * 7 + k * 3) & 0xff) as u8, 0x06, (b & 0xff) as u8, 0x0c]);
      match (b + k) % 4 { 0 => put(rom, at + 5, &[0xc3, 0x50, 0x01]), 1 => put(rom, at + 5, &[0xc9]), 2 => put(rom, at + 5, &[0x18, 0x02]), _ => put(rom, at + 5, &[0xcf]) }
      // JR +2 lands here: HALT
      put(rom, at + 9, &[0x76]);
    }
    // trampoline INSIDE the switchable bank: LD A,<bank'> ; LD (0x2100),A ; LD A,<marker of this bank> ; INC C ; JP 0x0150
    for k in 0..N_ENTRY {
      let at = b * 0x4000 + 0x300 + k * 0x40;
      put(rom, at, &[0x3e, ((b + k + 1) % 64) as u8, 0xea, 0x00, 0x21, 0x3e, ((b * 11 + k) & 0xff) as u8, 0x0c, 0xc3, 0x50, 0x01]);
    }
    // polling loops: blocks that end where they began (LD D,<bank marker> ; INC E ; JR back to the LD), the same address in
    // every bank with a different marker; the bank is switched from OUTSIDE between two runs of such a block (as an
    // interrupt handler would do)
    for k in 0..N_ENTRY {
      let at = b * 0x4000 + 0x600 + k * 0x40;
      put(rom, at, &[0x16, ((b * 13 + k) & 0xff) as u8, 0x1c, 0x18, 0xfb]);
    }
    // first bytes of the bank continue the bank-0 tail block differently per bank
    put(rom, b * 0x4000 + 0x3f0, &[0x3e, b as u8, 0x76]);
  }
  for k in 0..N_ENTRY { let at = 0x0150 + k * 0x40; rom[at + 7] = 0x76; }
}

pub fn entry(k: usize) -> u16 {
  match k / N_ENTRY {
    0 => (0x0150 + (k % N_ENTRY) * 0x40) as u16, 1 => (0x1000 + (k % N_ENTRY) * 0x40) as u16,
    2 => (0x4000 + (k % N_ENTRY) * 0x40) as u16, 3 => 0x3ff8, 4 => (0x4300 + (k % N_ENTRY) * 0x40) as u16,
    _ => (0x4600 + (k % N_ENTRY) * 0x40) as u16,
  }
}

pub fn gen_hist(rng: &mut Rng, len: usize, banked_switch: bool) -> Vec<String> {
  let mut h = Vec::new();
  for _ in 0..len {
    match rng.below(10) {
      0 | 1 | 2 => {
        if banked_switch && rng.chance(1, 6) { h.push(format!("g{}", 4 * N_ENTRY as u64 + rng.below(N_ENTRY as u64))) }
        else if rng.chance(1, 5) {
          // a polling loop in the switchable bank: run it twice, switch the bank from outside, run it again
          h.push(format!("g{}", 5 * N_ENTRY as u64 + rng.below(N_ENTRY as u64)));
          h.push(String::from("r")); h.push(String::from("r"));
          h.push(format!("w{}:{}", 0x2100, *rng.pick(&[1u8, 2, 3, 4, 5, 8, 0x21])));
          h.push(String::from("r"));
        }
        else { h.push(format!("g{}", rng.below(3 * N_ENTRY as u64 + 1))) }
      },
      3 => {
        let a = *rng.pick(&[0x2000u16, 0x2100, 0x3fff, 0x4000, 0x5000, 0x6000, 0x0000]);
        let v = *rng.pick(&[0u8, 1, 2, 3, 4, 5, 8, 0x1f, 0x20, 0x21, 0x24, 0x3f, 0x40, 0x7f]);   // 4, 8, 0x24: bank numbers that wrap to bank 0 on small cartridges
        h.push(format!("w{}:{}", a, v));
      },
      _ => h.push(String::from("r")),
    }
  }
  h
}

fn new_core(cfg: (u8, u8, u8)) -> Core {
  let mut core = mk_core(cfg.0, cfg.1, cfg.2);
  fill_rom(&mut core, rom_bank_count(cfg.1));
  let p = &mut core.memory as *mut MemoryAreas;
  // return addresses for RET: entries in bank 0
  let mut sp = 0xdf00u16;
  for k in 0..120 { let e = entry(k % N_ENTRY); memory_write_byte(p, sp, (e & 0xff) as u8); memory_write_byte(p, sp + 1, (e >> 8) as u8); sp += 2; }
  core.registers.sp = 0xdf00; core.registers.ip = 0x0150; core.registers.af = 0; core.registers.bc = 0; core.registers.de = 0; core.registers.hl = 0xc000;
  core
}

fn exec_hist(cfg: (u8, u8, u8), hist: &[String], cold: bool) -> String {
  let mut core = new_core(cfg);
  let mut out = Vec::new();
  let mut cursor = 0usize;
  for op in hist {
    let p = &mut core.memory as *mut MemoryAreas;
    if op == "r" {
      if cold { core.cache = CodeCache::new(); cursor = 0; }
      if core.registers.sp < 0xdf00 || core.registers.sp > 0xdfe0 { core.registers.sp = 0xdf40; }
      let ip0 = core.registers.ip as usize;
      let bank0 = core.memory.cart_state.get_rom_bank();
      // cache observation through the read-only hook, WITHOUT touching the cache's own bank selection: the block that
      // is cached for ip0 after the run was appended by this run (miss) iff it lies beyond the cursor seen so far
      let dyn_ = cfg!(feature = "jit") && crate::mem::can_dynarec(ip0);
      // did the block write to the cartridge's banking registers (0x2000-0x7fff)?
      crate::mem::verif_trace::start();
      core.run_code_block();
      let cw = crate::mem::verif_trace::take().iter().any(|t| t.0 == 1 && t.1 >= 0x2000 && t.1 < 0x8000) as u8;
      let (mut h, mut bt) = (2, 0);
      if dyn_ {
        match core.cache.verif_block(ip0) {
          Some((off, len, b)) => { h = if off >= cursor { 0 } else { 1 }; bt = b; if off + len > cursor { cursor = off + len; } },
          None => { h = 3; },
        }
      }
      let r = &core.registers;
      let (af, bc, de, hl, sp, ip) = (r.af, r.bc, r.de, r.hl, r.sp, r.ip);
      out.push(format!("{},{},{},{},{},{},{},{},{},{},{},{}", af, bc, de, hl, sp, ip, core.memory.cart_state.get_rom_bank(), ip0, bank0, h, bt, cw));
      // a halted machine restarts from the first entry; keep the history going
      if core.run_state != crate::emulator::RunState::Run {
        core.run_state = crate::emulator::RunState::Run;
        core.registers.ip = 0x0150;
      }
    } else if let Some(k) = op.strip_prefix("g") {
      core.registers.ip = entry(k.parse().unwrap()) as u32;
    } else if let Some(w) = op.strip_prefix("w") {
      let mut it = w.split(':');
      let a: u16 = it.next().unwrap().parse().unwrap(); let v: u8 = it.next().unwrap().parse().unwrap();
      memory_write_byte(p, a, v);
    }
  }
  out.join(";")
}

pub fn run(_sub: &str, opts: &Opts, w: &mut dyn Write) {
  if let Some(line) = opts.get("replay-line") {
    // replay: re-run exactly the configuration and history of the given line
    if opts.shard().0 != 0 { return; }
    let get = |k: &str| line.split_whitespace().find_map(|t| t.strip_prefix(k)).unwrap_or("").to_string();
    let c: Vec<u8> = get("cfg=").split(',').filter_map(|x| x.parse().ok()).collect();
    if c.len() != 3 { eprintln!("replay line has no cfg="); std::process::exit(2); }
    let cfg = (c[0], c[1], c[2]);
    let hist: Vec<String> = get("hist=").split(',').filter(|x| !x.is_empty()).map(String::from).collect();
    let o = exec_hist(cfg, &hist, false);
    if cfg!(feature = "jit") {
      let c = exec_hist(cfg, &hist, true);
      writeln!(w, "c03 cfg={},{},{} hist={} | o={} c={}", cfg.0, cfg.1, cfg.2, hist.join(","), o, c).unwrap();
    } else {
      writeln!(w, "c03 cfg={},{},{} hist={} | o={}", cfg.0, cfg.1, cfg.2, hist.join(","), o).unwrap();
    }
    return;
  }
  let mut rng = Rng::new(opts.seed ^ 0xc03);
  let (shard, nshards) = opts.shard();
  // the last two are two-bank cartridges with a controller: every even bank number maps bank 0 into the window
  let cfgs: [(u8, u8, u8); 6] = [(0x01, 5, 0), (0x11, 4, 2), (0x03, 1, 3), (0x13, 6, 3), (0x01, 0, 0), (0x13, 0, 3)];
  let n = if opts.thorough { 1700 } else { 50 };
  let len = if opts.thorough { 400 } else { 120 };
  let mut idx = 0usize;
  for &cfg in cfgs.iter() { for _ in 0..n {
    idx += 1;
    let hl = 10 + rng.below(len) as usize;
    // one history in five also uses the trampolines located inside the switchable bank (recorded known finding)
    let hist = gen_hist(&mut rng, hl, idx % 5 == 0);
    if idx % nshards != shard { continue; }
    let o = exec_hist(cfg, &hist, false);
    if cfg!(feature = "jit") {
      let c = exec_hist(cfg, &hist, true);
      writeln!(w, "c03 cfg={},{},{} hist={} | o={} c={}", cfg.0, cfg.1, cfg.2, hist.join(","), o, c).unwrap();
    } else {
      writeln!(w, "c03 cfg={},{},{} hist={} | o={}", cfg.0, cfg.1, cfg.2, hist.join(","), o).unwrap();
    }
  }}
}
