//! C02 / C01: the emitted-code table, produced by running the real `Emitter::encode_op` (and the prologue/epilogue writers).
//! `c02.table` prints one line per (encoding, operand bytes): the emitted bytes with host pointers replaced by tokens
//! (MEM, RD8, WR8, RD16, WR16, PUSH16) so that the output is independent of ASLR.  tools/gen_emit.py turns it into Lean.
use crate::decoder::decode;
use crate::emitter::Emitter;
use crate::mem::MemoryAreas;
use crate::util::Opts;
use std::io::Write;

const MEM_SENTINEL: u64 = 0x1122_3344_5566_7788;

fn tokens() -> Vec<(u64, &'static str)> {
  vec![
    (MEM_SENTINEL, "MEM"),
    (crate::mem::memory_read_byte as u64, "RD8"),
    (crate::mem::memory_write_byte as u64, "WR8"),
    (crate::mem::memory_read_word as u64, "RD16"),
    (crate::mem::memory_write_word as u64, "WR16"),
    (crate::mem::memory_push_word as u64, "PUSH16"),
  ]
}

/// bytes as space-separated hex, 8-byte host pointers replaced by their token
pub fn tokenize(bytes: &[u8]) -> String {
  let toks = tokens();
  let mut out: Vec<String> = Vec::new();
  let mut i = 0;
  while i < bytes.len() {
    let mut hit = None;
    if i + 8 <= bytes.len() {
      let mut v = 0u64;
      for k in 0..8 { v |= (bytes[i + k] as u64) << (8 * k); }
      for (p, name) in toks.iter() { if *p == v { hit = Some(*name); } }
    }
    match hit { Some(n) => { out.push(n.to_string()); i += 8; }, None => { out.push(format!("{:02x}", bytes[i])); i += 1; } }
  }
  out.join(" ")
}

pub fn emit(b0: u8, b1: u8, b2: u8) -> Option<(Vec<u8>, usize, usize)> {
  let (op, len, clocks) = decode(&[b0, b1, b2]);
  if let crate::decoder::ops::Op::Invalid(_) = op { return None; }
  let e = Emitter::new(MEM_SENTINEL as *const MemoryAreas);
  let mut buf = vec![0u8; 512];
  let n = e.encode_op(op, len, &mut buf);
  buf.truncate(n);
  Some((buf, len, clocks))
}

pub fn run(sub: &str, _opts: &Opts, w: &mut dyn Write) {
  if sub == "table" {
    let mut buf = vec![0u8; 256];
    let n = Emitter::write_prelude_function(&mut buf);
    writeln!(w, "prologue {}", tokenize(&buf[..n])).unwrap();
    let n = Emitter::write_epilogue_function(&mut buf);
    writeln!(w, "epilogue {}", tokenize(&buf[..n])).unwrap();
    let e = Emitter::new(MEM_SENTINEL as *const MemoryAreas);
    let n = e.encode_epilogue(&mut buf);
    writeln!(w, "blockend {}", tokenize(&buf[..n])).unwrap();
    for b0 in 0..=255u8 {
      if b0 == 0xcb {
        for b1 in 0..=255u8 { if let Some((bytes, len, clocks)) = emit(0xcb, b1, 0) { writeln!(w, "op cb {:02x} 00 len={} clocks={} : {}", b1, len, clocks, tokenize(&bytes)).unwrap(); } }
        continue;
      }
      let len = match emit(b0, 0, 0) { Some((_, l, _)) => l, None => continue };
      // every value of an 8-bit operand; a boundary sample of 16-bit operands
      let samples: Vec<(u8, u8)> = match len {
        1 => vec![(0, 0)],
        2 => (0..=255u8).map(|v| (v, 0)).collect(),
        _ => vec![(0x00, 0x00), (0x34, 0x12), (0xff, 0xff), (0x00, 0x80), (0xff, 0x7f), (0x01, 0x00), (0x00, 0x01), (0xfe, 0xff), (0x00, 0x40), (0xff, 0x3f), (0x50, 0x01), (0xcd, 0xab)],
      };
      for (b1, b2) in samples {
        let (bytes, len, clocks) = emit(b0, b1, b2).unwrap();
        writeln!(w, "op {:02x} {:02x} {:02x} len={} clocks={} : {}", b0, b1, b2, len, clocks, tokenize(&bytes)).unwrap();
      }
    }
  }
}
