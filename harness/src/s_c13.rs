//! C13: DIV/TIMA correspondence streams, driven through the real `Timer` public API and through the
//! `IO::set_byte`/`get_byte`/`run_clock_cycles` glue at 0xFF04..0xFF07 / IF bit 2.
//!
//! line:  c13.<sub> ops=<op,op,…> [pops=<op,…>] | obs=<o,o,…> [pobs=<o,…>]
//!   op  = d (DIV write) | t<v> (TIMA) | m<v> (TMA) | c<v> (TAC) | r<n>+<n>+… (run_cycles batches;
//!         one observation after the last batch, returned flags OR-ed)
//!   obs = div:tima:tma:tac:flag:cycle_count:enabled_mask:timer_clock_mask after every op (the last three
//!         through the `verif_state` hook), or `P` if the call panicked (ends the line)
//!
//! sub-streams
//!   api    random interleavings, 50 ops, Timer API                      (quick 10^4, thorough 10^6; --shard i/n)
//!   io     random interleavings through IO (registers by bus address, time by `run_clock_cycles` in multiples
//!          of 4 clocks, flag = IF bit 2)
//!   part   same history twice, the second time with every run split into random batches (implementation vs itself)
//!   phase  exhaustive: TAC old 0..7 × phase 0..1023 × TAC new 0..7 (+ upper-bit variants) × TIMA {0x00,0xFF}:
//!          the TAC-write glitch at every divider phase, then exactly one period of the new selection
//!   big    batches ≥ 2^32 − 2^16 / usize values ≥ 2^32 (outside the property's domain: model tie of the
//!          `as u32` truncation and the overflow check)
use crate::devices::interrupts::InterruptFlag;
use crate::devices::io::IO;
use crate::devices::timer::Timer;
use crate::timing::ClockCycles;
use crate::util::{Opts, Rng};
use std::io::Write;

#[derive(Clone, Debug)]
enum Op { Div, Tima(u8), Tma(u8), Tac(u8), Run(Vec<u64>) }

fn enc(ops: &[Op]) -> String {
  let mut s = String::new();
  for (i, op) in ops.iter().enumerate() {
    if i > 0 { s.push(','); }
    match op {
      Op::Div => s.push('d'),
      Op::Tima(v) => s.push_str(&format!("t{}", v)),
      Op::Tma(v) => s.push_str(&format!("m{}", v)),
      Op::Tac(v) => s.push_str(&format!("c{}", v)),
      Op::Run(bs) => {
        s.push('r');
        for (j, b) in bs.iter().enumerate() { if j > 0 { s.push('+'); } s.push_str(&b.to_string()); }
      }
    }
  }
  s
}

fn dec(s: &str) -> Vec<Op> {
  let mut v = Vec::new();
  for t in s.split(',') {
    if t.is_empty() { continue; }
    let (k, rest) = t.split_at(1);
    v.push(match k {
      "d" => Op::Div,
      "t" => Op::Tima(rest.parse().unwrap()),
      "m" => Op::Tma(rest.parse().unwrap()),
      "c" => Op::Tac(rest.parse().unwrap()),
      "r" => Op::Run(rest.split('+').map(|x| x.parse().unwrap()).collect()),
      _ => panic!("bad op {}", t),
    });
  }
  v
}

fn obs_timer(t: &Timer, flag: bool) -> String {
  let (cc, _c, _m, en, mask) = t.verif_state();
  format!("{}:{}:{}:{}:{}:{}:{}:{}", t.get_divider(), t.get_counter(), t.get_modulo(), t.get_timer_control(),
    flag as u8, cc, en, mask)
}

/// the ops through the Timer API; `guard` = run each `run_cycles` under catch_unwind (big stream)
fn drive_api(ops: &[Op], guard: bool) -> String {
  let mut t = Timer::new();
  let mut out: Vec<String> = Vec::with_capacity(ops.len());
  for op in ops {
    let mut flag = false;
    match op {
      Op::Div => t.reset_divider(),
      Op::Tima(v) => t.set_counter(*v),
      Op::Tma(v) => t.set_modulo(*v),
      Op::Tac(v) => flag = t.set_timer_control(*v) == InterruptFlag::timer(),
      Op::Run(bs) => {
        for b in bs {
          if guard {
            let r = std::panic::catch_unwind(std::panic::AssertUnwindSafe(|| t.run_cycles(ClockCycles(*b as usize))));
            match r {
              Ok(f) => flag |= f == InterruptFlag::timer(),
              Err(_) => { out.push("P".to_string()); return out.join(","); }
            }
          } else {
            let f = t.run_cycles(ClockCycles(*b as usize));
            // the flag is either empty or exactly the timer bit
            assert!(f == InterruptFlag::timer() || f == InterruptFlag::empty());
            flag |= f == InterruptFlag::timer();
          }
        }
      }
    }
    out.push(obs_timer(&t, flag));
  }
  out.join(",")
}

struct IoRig { io: IO, vram: Box<[u8]>, oam: Box<[u8]> }

impl IoRig {
  fn new() -> Self {
    IoRig { io: IO::new(), vram: vec![0u8; 0x2000].into_boxed_slice(), oam: vec![0u8; 0xa0].into_boxed_slice() }
  }
  /// the ops through the bus glue: register writes by address, reads by address, time through
  /// `IO::run_clock_cycles`, the interrupt request read back as IF (0xFF0F) bit 2 (cleared before each op)
  fn drive(&mut self, ops: &[Op]) -> String {
    self.io.timer = Box::new(Timer::new());
    let mut out: Vec<String> = Vec::with_capacity(ops.len());
    for op in ops {
      self.io.set_byte(0xff0f, 0);
      match op {
        Op::Div => self.io.set_byte(0xff04, 0x5a),
        Op::Tima(v) => self.io.set_byte(0xff05, *v),
        Op::Tma(v) => self.io.set_byte(0xff06, *v),
        Op::Tac(v) => self.io.set_byte(0xff07, *v),
        Op::Run(bs) => for b in bs { self.io.run_clock_cycles(ClockCycles(*b as usize), &self.vram, &self.oam); },
      }
      let flag = self.io.get_byte(0xff0f) & 4 != 0;
      let (cc, _c, _m, en, mask) = self.io.timer.verif_state();
      out.push(format!("{}:{}:{}:{}:{}:{}:{}:{}", self.io.get_byte(0xff04), self.io.get_byte(0xff05),
        self.io.get_byte(0xff06), self.io.get_byte(0xff07), flag as u8, cc, en, mask));
    }
    out.join(",")
  }
}

const BOUNDARY: [u64; 16] = [0, 1, 3, 4, 15, 16, 17, 63, 64, 65, 255, 256, 257, 1023, 1024, 1025];
const PERIODS: [u64; 4] = [16, 64, 256, 1024];
const WRAPS: [u64; 10] = [4095, 4096, 4097, 8191, 8192, 65535, 65536, 65537, 131071, 131072];
const HUGE: [u64; 5] = [1 << 20, (1 << 20) + 1, (1 << 20) - 1, 3 * 65536 + 5, 1 << 17];

/// batch size; `heavy` lines also draw the long ones (65535/65536/2^20 …)
fn gen_run(rng: &mut Rng, heavy: bool, cap: u64) -> u64 {
  let n = match rng.below(1000) {
    0..=449 => rng.below(48),
    450..=699 => *rng.pick(&BOUNDARY),
    700..=879 => rng.below(5000),
    880..=959 => { let p = *rng.pick(&PERIODS); (p * (1 + rng.below(8)) + rng.below(3)).saturating_sub(1) }
    _ => if !heavy { rng.below(300) } else {
      match rng.below(40) {
        0..=19 => *rng.pick(&WRAPS),
        20..=35 => rng.below(70224 * 2),
        _ => *rng.pick(&HUGE),
      }
    }
  };
  n.min(cap)
}

fn gen_tac(rng: &mut Rng) -> u8 {
  if rng.chance(4, 5) { rng.below(8) as u8 } else { rng.u8() }
}

fn gen_byte(rng: &mut Rng) -> u8 {
  match rng.below(4) { 0 => *rng.pick(&[0u8, 1, 0x7f, 0x80, 0xfd, 0xfe, 0xff]), 1 => 0xff, _ => rng.u8() }
}

fn gen_case(rng: &mut Rng, nops: usize, heavy: bool, cap: u64) -> Vec<Op> {
  let mut ops = Vec::with_capacity(nops);
  // start at an arbitrary divider phase half of the time (still disabled: the fast path)
  if rng.chance(1, 2) { ops.push(Op::Run(vec![rng.below(65536).min(cap)])); }
  while ops.len() < nops {
    let op = match rng.below(100) {
      0..=47 => Op::Run(vec![gen_run(rng, heavy, cap)]),
      48..=65 => Op::Tac(gen_tac(rng)),
      66..=79 => Op::Tima(gen_byte(rng)),
      80..=88 => Op::Tma(gen_byte(rng)),
      89..=94 => Op::Div,
      _ => { // overflow set-up: TIMA close to 0xFF, then about one period
        ops.push(Op::Tima(0xff - rng.below(2) as u8));
        Op::Run(vec![*rng.pick(&PERIODS) + rng.below(3) - 1])
      }
    };
    ops.push(op);
  }
  ops.truncate(nops.max(1));
  ops
}

/// split every run into random batches (same total), including empty batches
fn split_runs(rng: &mut Rng, ops: &[Op]) -> Vec<Op> {
  ops.iter().map(|op| match op {
    Op::Run(bs) => {
      let mut rest: u64 = bs.iter().sum();
      let mut parts = Vec::new();
      while rest > 0 && parts.len() < 12 {
        let b = match rng.below(6) {
          0 => 0,
          1 => 1,
          2 => *rng.pick(&BOUNDARY),
          3 => rng.below(rest + 1),
          4 => rest,
          _ => rng.below(64),
        }.min(rest);
        parts.push(b);
        rest -= b;
      }
      if rest > 0 || parts.is_empty() { parts.push(rest); }
      if rng.chance(1, 4) { parts.push(0); }
      Op::Run(parts)
    }
    o => o.clone(),
  }).collect()
}

fn shard_of(opts: &Opts) -> (u64, u64) {
  match opts.get("shard") {
    Some(s) => { let mut it = s.split('/'); (it.next().unwrap().parse().unwrap(), it.next().unwrap().parse().unwrap()) }
    None => (0, 1),
  }
}

fn case_rng(seed: u64, stream: u64, i: u64) -> Rng {
  Rng::new(seed ^ stream.wrapping_mul(0xD1B54A32D192ED03) ^ i.wrapping_mul(0x9E3779B97F4A7C15).rotate_left(17))
}

pub fn run(sub: &str, opts: &Opts, w: &mut dyn Write) {
  let (shard, nshards) = shard_of(opts);
  // replay: re-run exactly the ops of the given line
  if let Some(line) = opts.get("replay-line") {
    let get = |k: &str| line.split_whitespace().find_map(|t| t.strip_prefix(k).map(|s| s.to_string()));
    let ops = dec(&get("ops=").unwrap_or_default());
    match sub {
      "io" => { let mut rig = IoRig::new(); writeln!(w, "c13.io ops={} | obs={}", enc(&ops), rig.drive(&ops)).unwrap(); }
      "part" => {
        let pops = dec(&get("pops=").unwrap_or_default());
        writeln!(w, "c13.part ops={} pops={} | obs={} pobs={}", enc(&ops), enc(&pops), drive_api(&ops, false), drive_api(&pops, false)).unwrap();
      }
      "big" => { std::panic::set_hook(Box::new(|_| {})); writeln!(w, "c13.big ops={} | obs={}", enc(&ops), drive_api(&ops, true)).unwrap(); }
      _ => writeln!(w, "c13.{} ops={} | obs={}", sub, enc(&ops), drive_api(&ops, false)).unwrap(),
    }
    return;
  }
  match sub {
    "api" => {
      let n = opts.get_usize("n", if opts.thorough { 1_000_000 } else { 10_000 }) as u64;
      for i in 0..n {
        if i % nshards != shard { continue; }
        let mut rng = case_rng(opts.seed, 1, i);
        // one line in 8 (thorough: one in 40) draws long batches
        let heavy = i % (if opts.thorough { 40 } else { 8 }) == 0;
        let ops = gen_case(&mut rng, 50, heavy, u64::MAX);
        writeln!(w, "c13.api ops={} | obs={}", enc(&ops), drive_api(&ops, false)).unwrap();
      }
    }
    "io" => {
      let n = opts.get_usize("n", if opts.thorough { 100_000 } else { 2_000 }) as u64;
      let mut rig = IoRig::new();
      for i in 0..n {
        if i % nshards != shard { continue; }
        let mut rng = case_rng(opts.seed, 2, i);
        // `IO::run_clock_cycles` also advances the LCD, which steps 4 clocks at a time (the CPU only ever
        // reports whole machine cycles): batches are multiples of 4 here; odd sizes are the api stream's job
        let ops: Vec<Op> = gen_case(&mut rng, 50, i % 16 == 0, 70224 * 2).into_iter().map(|op| match op {
          Op::Run(bs) => Op::Run(bs.into_iter().map(|b| b & !3).collect()),
          o => o,
        }).collect();
        writeln!(w, "c13.io ops={} | obs={}", enc(&ops), rig.drive(&ops)).unwrap();
      }
    }
    "part" => {
      let n = opts.get_usize("n", if opts.thorough { 300_000 } else { 4_000 }) as u64;
      for i in 0..n {
        if i % nshards != shard { continue; }
        let mut rng = case_rng(opts.seed, 3, i);
        let heavy = i % (if opts.thorough { 40 } else { 8 }) == 0;
        let ops = gen_case(&mut rng, 30, heavy, u64::MAX);
        let pops = split_runs(&mut rng, &ops);
        writeln!(w, "c13.part ops={} pops={} | obs={} pobs={}", enc(&ops), enc(&pops),
          drive_api(&ops, false), drive_api(&pops, false)).unwrap();
      }
    }
    "phase" => {
      // exhaustive over old TAC × divider phase (bits 0..9) × new TAC × TIMA at the moment of the write
      let mut news: Vec<u8> = (0..8).collect();
      news.extend_from_slice(&[0xf8, 0xfc, 0x0d, 0xff]);
      let mut i = 0u64;
      for old in 0..8u8 { for phase in 0..1024u64 { for &new in &news { for &tima in &[0u8, 0xff] {
        i += 1;
        if i % nshards != shard { continue; }
        // thorough also places the phase in the upper half of the 16-bit divider (wrap within the period run)
        let base = if opts.thorough && (old ^ new) & 1 == 1 { 65536 - 1024 } else { 0 };
        let p_new = PERIODS[match new & 3 { 0 => 3, 1 => 0, 2 => 1, _ => 2 }];
        let ops = vec![Op::Tac(old), Op::Run(vec![base + phase]), Op::Tima(tima), Op::Tma(0x42), Op::Tac(new),
          Op::Run(vec![p_new])];
        writeln!(w, "c13.phase ops={} | obs={}", enc(&ops), drive_api(&ops, false)).unwrap();
      }}}}
    }
    "big" => {
      std::panic::set_hook(Box::new(|_| {}));
      let m32: u64 = 1 << 32;
      let mut cases: Vec<Vec<Op>> = Vec::new();
      for &cc in &[0u64, 1, 0xffff, 0x1234] {
        for &n in &[0xffff_0000u64, 0xffff_0001, 0xffff_ffff - 0x1234, 0xffff_ffff - 0x1233, 0xffff_ffff,
                    m32, m32 + 5, m32 + 0xffff_0000, m32 * 3 + 70000, 0xffff_fffe] {
          // disabled: the fast path adds the whole (truncated) batch at once
          cases.push(vec![Op::Tima(7), Op::Run(vec![cc]), Op::Run(vec![n]), Op::Run(vec![3])]);
          cases.push(vec![Op::Tac(3), Op::Run(vec![cc]), Op::Run(vec![n])]);
        }
        // enabled: truncation only (a u32 overflow in the loop needs ~2^32 iterations; thorough does one)
        for &n in &[m32, m32 + 5, m32 * 2 + 1025] {
          cases.push(vec![Op::Tac(5), Op::Run(vec![cc]), Op::Run(vec![n]), Op::Run(vec![16])]);
        }
      }
      if opts.thorough {
        cases.push(vec![Op::Tac(4), Op::Tima(0xfe), Op::Tma(0x10), Op::Run(vec![0xffff]), Op::Run(vec![0xffff_0001])]);
      }
      for (i, ops) in cases.iter().enumerate() {
        if i as u64 % nshards != shard { continue; }
        writeln!(w, "c13.big ops={} | obs={}", enc(ops), drive_api(ops, true)).unwrap();
      }
    }
    other => {
      eprintln!("unknown c13 sub-stream {}", other);
      std::process::exit(2);
    }
  }
}
