//! gbh — correspondence / witness-search harness for the gb-dynarec verification.
//! The repository sources are compiled *into this crate* straight from /repo/src, so every
//! build sees the current working tree.
#![allow(warnings)]

#[path = "/repo/src/cache/mod.rs"] pub mod cache;
#[path = "/repo/src/cpu.rs"] pub mod cpu;
#[path = "/repo/src/cart.rs"] pub mod cart;
#[path = "/repo/src/debug/mod.rs"] pub mod debug;
#[path = "/repo/src/decoder/mod.rs"] pub mod decoder;
#[path = "/repo/src/devices/mod.rs"] pub mod devices;
#[path = "/repo/src/emitter/mod.rs"] pub mod emitter;
#[path = "/repo/src/emulator.rs"] pub mod emulator;
#[path = "/repo/src/interpreter/mod.rs"] pub mod interpreter;
#[path = "/repo/src/mem.rs"] pub mod mem;
#[path = "/repo/src/system/mod.rs"] pub mod system;
#[path = "/repo/src/timing.rs"] pub mod timing;

mod util;
mod roms;
mod cpucase;
mod s_c01;
mod s_c02;
mod s_c03;
mod s_c04;
mod s_c05;
mod s_c06;
mod s_c07;
mod s_c08;
mod s_c09;
mod s_c10;
mod s_c11;
mod s_c12;
mod s_c13;
mod s_c14;
mod s_c15;
mod s_c16;
mod s_c17;
mod s_c18;
mod s_c19;
mod s_c20;

use std::io::Write;

fn main() {
  let args: Vec<String> = std::env::args().collect();
  if args.len() < 2 {
    eprintln!("usage: gbh <stream> [--tier quick|thorough] [--seed N] [...]");
    std::process::exit(2);
  }
  let opts = util::Opts::parse(&args[2..]);
  // The emulator's serial port writes guest bytes to fd 1. Protocol lines therefore go to a private duplicate
  // of the original stdout, and fd 1 itself is pointed at /dev/null (streams that observe serial output
  // re-point it at a file of their own).
  let out = unsafe {
    use std::os::unix::io::FromRawFd;
    let saved = libc::dup(1);
    let null = libc::open(b"/dev/null\0".as_ptr() as *const libc::c_char, libc::O_WRONLY);
    libc::dup2(null, 1);
    libc::close(null);
    std::fs::File::from_raw_fd(saved)
  };
  let mut w = std::io::BufWriter::with_capacity(1 << 20, out);
  // stream names are "<pid>" or "<pid>.<sub>", e.g. "c20.addr"
  let (pid, sub) = match args[1].find('.') {
    Some(i) => (&args[1][..i], &args[1][i + 1..]),
    None => (&args[1][..], ""),
  };
  match pid {
    "c01" => s_c01::run(sub, &opts, &mut w),
    "c02" => s_c02::run(sub, &opts, &mut w),
    "c03" => s_c03::run(sub, &opts, &mut w),
    "c04" => s_c04::run(sub, &opts, &mut w),
    "c05" => s_c05::run(sub, &opts, &mut w),
    "c06" => s_c06::run(sub, &opts, &mut w),
    "c07" => s_c07::run(sub, &opts, &mut w),
    "c08" => s_c08::run(sub, &opts, &mut w),
    "c09" => s_c09::run(sub, &opts, &mut w),
    "c10" => s_c10::run(sub, &opts, &mut w),
    "c11" => s_c11::run(sub, &opts, &mut w),
    "c12" => s_c12::run(sub, &opts, &mut w),
    "c13" => s_c13::run(sub, &opts, &mut w),
    "c14" => s_c14::run(sub, &opts, &mut w),
    "c15" => s_c15::run(sub, &opts, &mut w),
    "c16" => s_c16::run(sub, &opts, &mut w),
    "c17" => s_c17::run(sub, &opts, &mut w),
    "c18" => s_c18::run(sub, &opts, &mut w),
    "c19" => s_c19::run(sub, &opts, &mut w),
    "c20" => s_c20::run(sub, &opts, &mut w),
    other => {
      eprintln!("unknown stream {}", other);
      std::process::exit(2);
    }
  }
  w.flush().unwrap();
}
