//! gbh — correspondence / witness-search harness for the gb-dynarec verification.
//! The repository sources are compiled *into this crate* straight from /repo/src, so every
//! build sees the current working tree.
#![allow(warnings)]

#[path = "/repo/src/cache/mod.rs"] pub mod cache;
#[path = "/repo/src/cpu.rs"] pub mod cpu;
#[path = "/repo/src/cart.rs"] pub mod cart;
#[path = "/repo/src/debug/mod.rs"] pub mod debug;
#[path = "/repo/src/decoder/mod.rs"] pub mod decoder;
#[path = "/repo/src/devices/mod.rs"] pub mod devices;
#[path = "/repo/src/emitter/mod.rs"] pub mod emitter;
#[path = "/repo/src/emulator.rs"] pub mod emulator;
#[path = "/repo/src/interpreter/mod.rs"] pub mod interpreter;
#[path = "/repo/src/mem.rs"] pub mod mem;
#[path = "/repo/src/system/mod.rs"] pub mod system;
#[path = "/repo/src/timing.rs"] pub mod timing;

mod util;
mod s_joy;

use std::io::Write;

fn main() {
  let args: Vec<String> = std::env::args().collect();
  if args.len() < 2 {
    eprintln!("usage: gbh <stream> [--tier quick|thorough] [--seed N] [...]");
    std::process::exit(2);
  }
  let opts = util::Opts::parse(&args[2..]);
  let out = std::io::stdout();
  let mut w = std::io::BufWriter::with_capacity(1 << 20, out.lock());
  match args[1].as_str() {
    "joy" => s_joy::run(&opts, &mut w),
    other => {
      eprintln!("unknown stream {}", other);
      std::process::exit(2);
    }
  }
  w.flush().unwrap();
}
