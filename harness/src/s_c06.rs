//! C06: control flow, lengths and timing: every first byte / CB byte, PC and SP on region boundaries and wrap,
//! all displacements; instructions that straddle region ends; undefined opcodes.
use crate::cpucase::*;
use crate::util::{Opts, Rng};
use std::io::Write;

const IPS: [u16; 22] = [0x0000, 0x0001, 0x00fd, 0x3ffc, 0x3ffd, 0x3ffe, 0x3fff, 0x4000, 0x7ffd, 0x7ffe, 0x7fff, 0xc000, 0xcffd,
  0xcffe, 0xcfff, 0xd000, 0xdffd, 0xff80, 0xff81, 0xfffc, 0xfffd, 0xfffe];
const SPS: [u16; 16] = [0x0000, 0x0001, 0x0002, 0x8000, 0xc000, 0xc001, 0xd000, 0xdfff, 0xe000, 0xfe00, 0xff10, 0xff80, 0xfffe, 0xffff, 0xff0f, 0xa000];

/// c06.block: whole blocks through `interpreter::run_code_block`: n one-byte, one-cycle, non-terminating instructions and one
/// terminator (HALT / EI / DI), in ROM bank 0, the switchable bank, work RAM and high RAM, and starting just below the 4 KiB
/// lines of work RAM (0xD000, and 0xE000 where the echo begins: code there is written through the cell it mirrors): the block must end at the terminator and nowhere else, however long it is and
/// whatever address lines it crosses outside ROM.
/// c06.block at=<addr> code=<hex> | ip= cy= st=
fn blocks(opts: &Opts, w: &mut dyn Write) {
  let mut rng = Rng::new(opts.seed ^ 0xc06b);
  let (shard, nshards) = opts.shard();
  let lens: [usize; 16] = [0, 1, 2, 17, 50, 112, 113, 114, 115, 130, 255, 256, 257, 400, 1000, 3000];
  let mut idx = 0usize;
  let reps = if opts.thorough { 12 } else { 2 };
  for &at in [0x0200u16, 0x4200, 0xc000, 0xd100, 0xff80, 0xcff0, 0xcfff, 0xdff8].iter() { for &n in lens.iter() { for &term in [0x76u8, 0xfb, 0xf3].iter() { for _ in 0..reps {
    idx += 1;
    let n = if at == 0xff80 { n.min(100) } else { n };
    let mut code: Vec<u8> = (0..n).map(|_| *rng.pick(&[0x00u8, 0x04, 0x0c, 0x14, 0x1c, 0x3c, 0x3d, 0x05, 0x0d, 0x7f, 0x47])).collect();
    code.push(term);
    if idx % nshards != shard { continue; }
    let mut core = crate::roms::mk_core(0x03, 1, 3);
    let p = &mut core.memory as *mut crate::mem::MemoryAreas;
    for (k, b) in code.iter().enumerate() {
      let a = at as usize + k;
      if a < 0x8000 { core.memory.rom[a] = *b; } else { crate::mem::memory_write_byte(p, (if a >= 0xe000 && a < 0xfe00 { a - 0x2000 } else { a }) as u16, *b); }
    }
    core.registers.af = 0x1200; core.registers.bc = 0x3456; core.registers.de = 0x789a; core.registers.hl = 0xc800; core.registers.sp = 0xdff0;
    core.registers.ip = at as u32; core.registers.cycles = 0;
    let st = crate::interpreter::run_code_block(&mut core.registers, p);
    let (ip, cy) = (core.registers.ip, core.registers.cycles);
    writeln!(w, "c06.block at={} code={} | ip={} cy={} st={}", at, crate::util::hex(&code), ip, cy, st).unwrap();
  }}}}
}

pub fn run(sub: &str, opts: &Opts, w: &mut dyn Write) {
  if sub == "block" { return blocks(opts, w); }
  let mut rng = Rng::new(opts.seed ^ 0xc06);
  let (shard, nshards) = opts.shard();
  let reps = if opts.thorough { 40 } else { 2 };
  let mut idx = 0usize;
  // every first byte (incl. the undefined ones) and every CB byte at every boundary PC
  for b0 in 0..=255u16 { for &ip in IPS.iter() { for rep in 0..reps {
    idx += 1;
    if idx % nshards != shard { continue; }
    let b1 = if b0 == 0xcb { rng.u8() } else { byte(&mut rng) };
    let b2 = byte(&mut rng);
    let mut c = gen_case(&mut rng, [b0 as u8, b1, b2], ip, (0x03, 1, 3));
    if rep % 2 == 0 { c.regs[4] = *rng.pick(&SPS) as u32; }
    run_case("c06", &c, w);
  }}}
  // the same boundary placements with another ROM bank mapped: the part of the instruction at or above 0x4000 must come
  // from the bank that is mapped, through the slice as well as through the straddling-fetch path
  for b0 in 0..=255u16 { for &ip in [0x3ffdu16, 0x3ffe, 0x3fff, 0x4000, 0x7ffd, 0x7ffe].iter() { for bank in [2usize, 3] {
    idx += 1;
    if idx % nshards != shard { continue; }
    let b1 = if b0 == 0xcb { rng.u8() } else { byte(&mut rng) };
    let b2 = byte(&mut rng);
    let mut c = gen_case(&mut rng, [b0 as u8, b1, b2], ip, (0x03, 1, 3));
    for e in c.rompatch.iter_mut() { if e.0 >= 0x4000 { e.0 = 0x4000 * bank + (e.0 & 0x3fff); } }
    c.pre.insert(0, (0x2100, bank as u8));
    run_case("c06", &c, w);
  }}}
  // control instructions: all displacements / targets, both flag outcomes
  let ctl: [u8; 33] = [0x18, 0x20, 0x28, 0x30, 0x38, 0xc2, 0xc3, 0xca, 0xd2, 0xda, 0xe9, 0xc4, 0xcc, 0xcd, 0xd4, 0xdc,
    0xc0, 0xc8, 0xc9, 0xd0, 0xd8, 0xd9, 0xc7, 0xcf, 0xd7, 0xdf, 0xe7, 0xef, 0xf7, 0xff, 0x76, 0x10, 0xfb];
  for &b0 in ctl.iter() { for d in 0..=255u16 { for rep in 0..reps {
    idx += 1;
    if idx % nshards != shard { continue; }
    let ip = if rep == 0 { *rng.pick(&IPS) } else { 0xc000 + rng.below(0x1ff0) as u16 };
    let b2 = byte(&mut rng);
    let mut c = gen_case(&mut rng, [b0, d as u8, b2], ip, (0x03, 1, 3));
    c.regs[4] = if rng.chance(1, 2) { *rng.pick(&SPS) as u32 } else { c.regs[4] };
    run_case("c06", &c, w);
  }}}
}
