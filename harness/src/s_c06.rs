//! C06: control flow, lengths and timing: every first byte / CB byte, PC and SP on region boundaries and wrap,
//! all displacements; instructions that straddle region ends; undefined opcodes.
use crate::cpucase::*;
use crate::util::{Opts, Rng};
use std::io::Write;

const IPS: [u16; 22] = [0x0000, 0x0001, 0x00fd, 0x3ffc, 0x3ffd, 0x3ffe, 0x3fff, 0x4000, 0x7ffd, 0x7ffe, 0x7fff, 0xc000, 0xcffd,
  0xcffe, 0xcfff, 0xd000, 0xdffd, 0xff80, 0xff81, 0xfffc, 0xfffd, 0xfffe];
const SPS: [u16; 16] = [0x0000, 0x0001, 0x0002, 0x8000, 0xc000, 0xc001, 0xd000, 0xdfff, 0xe000, 0xfe00, 0xff10, 0xff80, 0xfffe, 0xffff, 0xff0f, 0xa000];

pub fn run(_sub: &str, opts: &Opts, w: &mut dyn Write) {
  let mut rng = Rng::new(opts.seed ^ 0xc06);
  let (shard, nshards) = opts.shard();
  let reps = if opts.thorough { 40 } else { 2 };
  let mut idx = 0usize;
  // every first byte (incl. the undefined ones) and every CB byte at every boundary PC
  for b0 in 0..=255u16 { for &ip in IPS.iter() { for rep in 0..reps {
    idx += 1;
    if idx % nshards != shard { continue; }
    let b1 = if b0 == 0xcb { rng.u8() } else { byte(&mut rng) };
    let b2 = byte(&mut rng);
    let mut c = gen_case(&mut rng, [b0 as u8, b1, b2], ip, (0x03, 1, 3));
    if rep % 2 == 0 { c.regs[4] = *rng.pick(&SPS) as u32; }
    run_case("c06", &c, w);
  }}}
  // the same boundary placements with another ROM bank mapped: the part of the instruction at or above 0x4000 must come
  // from the bank that is mapped, through the slice as well as through the straddling-fetch path
  for b0 in 0..=255u16 { for &ip in [0x3ffdu16, 0x3ffe, 0x3fff, 0x4000, 0x7ffd, 0x7ffe].iter() { for bank in [2usize, 3] {
    idx += 1;
    if idx % nshards != shard { continue; }
    let b1 = if b0 == 0xcb { rng.u8() } else { byte(&mut rng) };
    let b2 = byte(&mut rng);
    let mut c = gen_case(&mut rng, [b0 as u8, b1, b2], ip, (0x03, 1, 3));
    for e in c.rompatch.iter_mut() { if e.0 >= 0x4000 { e.0 = 0x4000 * bank + (e.0 & 0x3fff); } }
    c.pre.insert(0, (0x2100, bank as u8));
    run_case("c06", &c, w);
  }}}
  // control instructions: all displacements / targets, both flag outcomes
  let ctl: [u8; 33] = [0x18, 0x20, 0x28, 0x30, 0x38, 0xc2, 0xc3, 0xca, 0xd2, 0xda, 0xe9, 0xc4, 0xcc, 0xcd, 0xd4, 0xdc,
    0xc0, 0xc8, 0xc9, 0xd0, 0xd8, 0xd9, 0xc7, 0xcf, 0xd7, 0xdf, 0xe7, 0xef, 0xf7, 0xff, 0x76, 0x10, 0xfb];
  for &b0 in ctl.iter() { for d in 0..=255u16 { for rep in 0..reps {
    idx += 1;
    if idx % nshards != shard { continue; }
    let ip = if rep == 0 { *rng.pick(&IPS) } else { 0xc000 + rng.below(0x1ff0) as u16 };
    let b2 = byte(&mut rng);
    let mut c = gen_case(&mut rng, [b0, d as u8, b2], ip, (0x03, 1, 3));
    c.regs[4] = if rng.chance(1, 2) { *rng.pick(&SPS) as u32 } else { c.regs[4] };
    run_case("c06", &c, w);
  }}}
}
