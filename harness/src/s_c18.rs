//! C18: serial transfers appear on standard output in order, and the core writes nothing else there.
//! The guest program (LD A,v ; LDH (n),A ... HALT) runs through `Core::run_code_block` of THIS build with fd 1 pointed at a
//! scratch file; the runner joins the jit and non-jit lines.
//! c18 ws=<a:v;...> | out=<hex of the bytes that reached fd 1> halted=<0|1>
//! c18.fill (jit build only): fill the translation cache up to its last 4 KiB and report what reached fd 1.
use crate::emulator::RunState;
use crate::roms::*;
use crate::util::{hex, Opts, Rng};
use std::io::{Read, Seek, SeekFrom, Write};
use std::os::unix::io::AsRawFd;

pub struct Capture { saved: i32, file: std::fs::File }

impl Capture {
  pub fn start() -> Capture {
    let path = format!("{}/c18_{}.out", work_dir(), std::process::id());
    let file = std::fs::OpenOptions::new().create(true).truncate(true).read(true).write(true).open(&path).unwrap();
    let _ = std::fs::remove_file(&path);
    let saved = unsafe { libc::dup(1) };
    unsafe { libc::dup2(file.as_raw_fd(), 1); }
    Capture { saved, file }
  }
  pub fn finish(mut self) -> Vec<u8> {
    let _ = std::io::stdout().flush();
    unsafe { libc::dup2(self.saved, 1); libc::close(self.saved); }
    let mut out = Vec::new();
    self.file.seek(SeekFrom::Start(0)).unwrap();
    self.file.read_to_end(&mut out).unwrap();
    out
  }
}

pub fn gen_writes(rng: &mut Rng) -> Vec<(u8, u8)> {
  let n = 1 + rng.below(24) as usize;
  (0..n).map(|_| {
    // one write in eight goes to another device: an OAM DMA start (the CPU keeps its access to the serial port while the
    // transfer runs), a palette, the timer modulo, a scroll register - the serial port must not care
    if rng.chance(1, 8) {
      let a = *rng.pick(&[0x46u8, 0x46, 0x46, 0x47, 0x06, 0x42]);
      let v = if a == 0x46 { *rng.pick(&[0xc0u8, 0xd0, 0x80, 0x00, 0x41]) } else { rng.u8() };
      return (a, v);
    }
    let a = if rng.chance(1, 2) { 0x01 } else { 0x02 };
    let v = match rng.below(4) { 0 => *rng.pick(&[0x00u8, 0x7f, 0x80, 0x81, 0xff, 0x01, 0x0a, 0x41]), _ => rng.u8() };
    (a, v)
  }).collect()
}

pub fn run(sub: &str, opts: &Opts, w: &mut dyn Write) {
  if sub == "fill" { return fill(w); }
  let mut rng = Rng::new(opts.seed ^ 0xc18);
  let (shard, nshards) = opts.shard();
  let n = if opts.thorough { 20000 } else { 300 };
  for idx in 0..n {
    let ws = gen_writes(&mut rng);
    let at: usize = if rng.chance(1, 3) { 0x4000 + rng.below(0x3000) as usize } else { 0x0150 + rng.below(0x3000) as usize };
    if idx % nshards != shard { continue; }
    let mut core = mk_core(0x01, 1, 0);
    let mut pc = at;
    for (a, v) in ws.iter() {
      for b in [0x3e, *v, 0xe0, *a] { core.memory.rom[pc] = b; pc += 1; }
      // now and then end the block so that several translated blocks are involved
      if rng_like(*v) { for b in [0x18u8, 0x00] { core.memory.rom[pc] = b; pc += 1; } }
    }
    core.memory.rom[pc] = 0x76;
    core.registers.ip = at as u32;
    let cap = Capture::start();
    let mut steps = 0;
    while core.run_state == RunState::Run && steps < 200 { core.run_code_block(); steps += 1; }
    let out = cap.finish();
    let wss: Vec<String> = ws.iter().map(|(a, v)| format!("{}:{}", 0xff00u32 | *a as u32, v)).collect();
    writeln!(w, "c18 ws={} at={} | out={} halted={}", wss.join(";"), at, hex(&out), (core.run_state == RunState::Halt) as u8).unwrap();
  }
}

fn rng_like(v: u8) -> bool { v % 5 == 0 }

/// fill the executable area with translations until fewer than 0x1000 bytes are left, with fd 1 captured
fn fill(w: &mut dyn Write) {
  if !cfg!(feature = "jit") { writeln!(w, "c18.fill ws= | out= halted=1 skipped=1").unwrap(); return; }
  let mut core = mk_core(0x11, 6, 0); // MBC3, 128 banks (7-bit bank register)
  let banks = rom_bank_count(6);
  // every bank: a long NOP run ending in JP 0x0150 (big blocks), plus many tiny blocks `NOP ; JP 0x0150` every 8 bytes
  for b in 1..banks {
    let base = b * 0x4000;
    for i in 0..0x3000 { core.memory.rom[base + i] = 0x00; }
    for (i, x) in [0xc3u8, 0x50, 0x01].iter().enumerate() { core.memory.rom[base + 0x3000 + i] = *x; }
    let mut o = 0x3100;
    while o + 8 <= 0x3f00 { for (i, x) in [0x00u8, 0xc3, 0x50, 0x01].iter().enumerate() { core.memory.rom[base + o + i] = *x; } o += 8; }
  }
  for (i, x) in [0x76u8].iter().enumerate() { core.memory.rom[0x150 + i] = *x; }
  let cap = Capture::start();
  let total = crate::cache::INITIAL_MEMORY_SIZE;
  let mut used_est: usize = 0;
  let mut bank = 1usize;
  // big blocks: ~ 0x3000 * 8 bytes each
  while bank < banks && used_est + 0x3000 * 8 + 0x2000 < total - 0x1000 {
    crate::mem::memory_write_byte(&mut core.memory as *mut _, 0x2100, bank as u8);
    core.registers.ip = 0x4000; core.run_state = RunState::Run;
    core.run_code_block();
    used_est += 0x3000 * 8 + 40;
    bank += 1;
  }
  // tiny blocks until fewer than 0x1000 bytes are left (cursor read through the CodeCache::verif_block hook), then a few more
  let mut o = 0x3100usize; let mut tiny = 0usize;
  let mut b2 = 1usize;
  let mut below = 0usize;
  while tiny < 400_000 && below < 5 {
    crate::mem::memory_write_byte(&mut core.memory as *mut _, 0x2100, b2 as u8);
    let ip = 0x4000 + o;
    core.registers.ip = ip as u32; core.run_state = RunState::Run;
    core.run_code_block();
    tiny += 1;
    core.cache.set_rom_bank(core.memory.get_rom_bank());
    if let Some((off, len, _)) = core.cache.verif_block(ip) {
      let remaining = total - (off + len);
      if remaining < 0x1000 { below += 1; }
      if remaining < 0x200 { break; }
    }
    o += 8; if o + 8 > 0x3f00 { o = 0x3100; b2 += 1; if b2 >= banks { break; } }
  }
  let _ = used_est;
  let out = cap.finish();
  let show = if out.len() > 120 { &out[..120] } else { &out[..] };
  writeln!(w, "c18.fill ws= | out={} halted=1 blocks={} outlen={}", hex(show), tiny + bank, out.len()).unwrap();
}
