//! C19: ROM validation.
//!
//! `c19.hdr` (in-process): a `Header` is made from any 80 bytes by transmute (it is `repr(C, packed)`, all fields u8).
//!   line: c19.hdr hdr=<80 bytes hex> | valid=<0|1> banks=<n> rombytes=<n> rambytes=<n> cart=<0|1|3|n|panic> pmsg=<msg> title=<hex of get_title()|-|panic>
//!   `cart` identifies the state `create_cart_state` built by its behaviour on a 128-bank twin header (write 0x7f
//!   to 0x2000, read the bank: NullCartState 1, MBC1 0x1f, MBC3 0x7f); its panic is a plain Rust panic, caught
//!   with catch_unwind.
//!   exhaustive over the checksum byte x header fillings, all 256 type bytes, all ROM/RAM code bytes
//!   (thorough: all 256x256 ROM/RAM code pairs).
//!
//! `c19.file`: the REAL binary (/verif/.work/target/bin/release/gb-dynarec, built by the runner from /repo) on
//!   generated files under /verif/.work/c19/.
//!   line: c19.file kind=<file|missing> hdr=<hex> len=<n> pb=<bank number selected> mk=<bank holding the marker> | out=<stdout prefix hex> err=<stderr prefix hex> status=<alive|exit:N|sig:N>
//!   File = zeros, header at 0x100 (entry: NOP; JP 0x150), probe at 0x150: select ROM bank `pb` with the
//!   standard MBC1 / MBC3 register writes, LD A,(0x7FFF), print A, 'K', '\n' on the serial port, loop forever.
//!   'Z' at offset 0x4000*mk+0x3FFF: mk = pb = the last declared (reachable) bank, or, in the wrap cases, pb >= the
//!   declared count and mk = the bank the controller must reduce it to.  Files are sparse
//!   (set_len) and removed after each run.  The run is observed until the terminal marker ("K\n", or the
//!   fallback line after a rejection) plus a grace period, or death, or the deadline; then killed.
use crate::cart::{CartState, Header};
use crate::util::{hex, Opts, Rng};
use std::io::{Read, Seek, SeekFrom, Write};
use std::os::unix::process::ExitStatusExt;
use std::path::PathBuf;
use std::sync::atomic::{AtomicUsize, Ordering};
use std::sync::{Arc, Mutex};
use std::time::{Duration, Instant};

const OFF_TITLE: usize = 0x34;
const OFF_TYPE: usize = 0x47;
const OFF_ROM: usize = 0x48;
const OFF_RAM: usize = 0x49;
const OFF_CHK: usize = 0x4d;

fn header_from(bytes: [u8; 80]) -> Header {
  unsafe { std::mem::transmute::<[u8; 80], Header>(bytes) }
}

fn unhex(s: &str) -> Vec<u8> {
  let b = s.as_bytes();
  (0..b.len() / 2).map(|i| u8::from_str_radix(&s[2 * i..2 * i + 2], 16).unwrap_or(0)).collect()
}

/// the checksum byte that makes the header valid (test-input generation only; the verdict is the Lean side's)
fn good_checksum(h: &[u8; 80]) -> u8 {
  let mut x: u8 = 0;
  for i in 0x34..0x4d { x = x.wrapping_sub(h[i]).wrapping_sub(1); }
  x
}

fn random_header(rng: &mut Rng) -> [u8; 80] {
  let mut h = [0u8; 80];
  for b in h.iter_mut() { *b = rng.u8(); }
  h
}

// ---------------------------------------------------------------- c19.hdr

fn hdr_line(bytes: [u8; 80], w: &mut dyn Write) {
  let h = header_from(bytes);
  let valid = h.valid_checksum();
  let banks = h.get_rom_bank_count();
  let romb = h.get_rom_size_bytes();
  let ramb = h.get_ram_size_bytes();
  // Which CartState was built is read off its behaviour.  The bank registers wrap to the cartridge's size, so
  // the three states only differ observably on a large cartridge: the arm taken depends on the type byte alone
  // (the translator insists on `match self.cart_type`), hence a twin header with the same type byte and
  // 128 ROM banks / 32 KiB RAM is asked as well.  Both must agree on panic / no panic.
  let own = std::panic::catch_unwind(std::panic::AssertUnwindSafe(|| {
    let mut st = h.create_cart_state();
    st.write_rom(0x2000, 0x7f);
    st.get_rom_bank()
  }));
  let mut twin_bytes = bytes;
  twin_bytes[OFF_ROM] = 0x06;
  twin_bytes[OFF_RAM] = 0x03;
  let twin = header_from(twin_bytes);
  let r = std::panic::catch_unwind(std::panic::AssertUnwindSafe(|| {
    let mut st = twin.create_cart_state();
    st.write_rom(0x2000, 0x7f);
    st.get_rom_bank()
  }));
  let (cart, pmsg) = match (own, r) {
    (Ok(_), Ok(1)) => ("0".to_string(), "-".to_string()),
    (Ok(_), Ok(0x1f)) => ("1".to_string(), "-".to_string()),
    (Ok(_), Ok(0x7f)) => ("3".to_string(), "-".to_string()),
    (Ok(_), Ok(n)) => (format!("{}", 1000 + n), "-".to_string()),
    (Err(p), Err(_)) => {
      let m = if let Some(s) = p.downcast_ref::<&str>() { s.to_string() }
              else if let Some(s) = p.downcast_ref::<String>() { s.clone() } else { "?".to_string() };
      ("panic".to_string(), m.replace(' ', "_"))
    }
    _ => ("inconsistent".to_string(), "-".to_string()),
  };
  // what `load_rom` prints in the Loading line; the title bytes are whatever the file holds
  let title = match std::panic::catch_unwind(std::panic::AssertUnwindSafe(|| h.get_title())) {
    Ok(t) => if t.is_empty() { "-".to_string() } else { hex(t.as_bytes()) },
    Err(_) => "panic".to_string(),
  };
  writeln!(w, "c19.hdr hdr={} | valid={} banks={} rombytes={} rambytes={} cart={} pmsg={} title={}",
    hex(&bytes), valid as u8, banks, romb, ramb, cart, pmsg, title).unwrap();
}

fn run_hdr(opts: &Opts, w: &mut dyn Write) {
  std::panic::set_hook(Box::new(|_| {})); // the expected panics of create_cart_state stay quiet
  if let Some(line) = opts.get("replay-line") {
    let hx = line.split_whitespace().find_map(|t| t.strip_prefix("hdr=")).unwrap_or("");
    let v = unhex(hx);
    if v.len() == 80 {
      let mut b = [0u8; 80];
      b.copy_from_slice(&v);
      hdr_line(b, w);
    }
    return;
  }
  let mut rng = Rng::new(opts.seed);
  // (1) every checksum byte x header fillings
  let mut fillings: Vec<[u8; 80]> = vec![[0u8; 80], [0xffu8; 80]];
  let mut ramp = [0u8; 80];
  for (i, b) in ramp.iter_mut().enumerate() { *b = i as u8; }
  fillings.push(ramp);
  let nrand = if opts.thorough { 61 } else { 3 };
  for _ in 0..nrand { fillings.push(random_header(&mut rng)); }
  for f in fillings.iter() {
    for c in 0..=255u8 {
      let mut h = *f;
      h[OFF_CHK] = c;
      hdr_line(h, w);
    }
    // and every value of one checksummed byte with the checksum byte fixed (the sum moves instead)
    for v in 0..=255u8 {
      let mut h = *f;
      h[OFF_TITLE + (v as usize % 11)] = v;
      hdr_line(h, w);
    }
  }
  // (2) every cartridge type byte, with a valid and with an invalid checksum
  for t in 0..=255u8 {
    let mut h = random_header(&mut rng);
    h[OFF_TYPE] = t;
    h[OFF_CHK] = good_checksum(&h);
    hdr_line(h, w);
    h[OFF_CHK] = h[OFF_CHK].wrapping_add(1 + rng.u8() % 255);
    hdr_line(h, w);
  }
  // (3) ROM / RAM size codes: each of the 256 values of either byte; thorough: all 65 536 pairs
  if opts.thorough {
    let mut base = random_header(&mut rng);
    for rc in 0..=255u8 { for ac in 0..=255u8 {
      if ac == 0 { base = random_header(&mut rng); }
      let mut h = base;
      h[OFF_ROM] = rc; h[OFF_RAM] = ac;
      h[OFF_CHK] = good_checksum(&h);
      hdr_line(h, w);
    }}
  } else {
    for c in 0..=255u8 {
      let mut h = random_header(&mut rng);
      h[OFF_ROM] = c;
      h[OFF_CHK] = good_checksum(&h);
      hdr_line(h, w);
      let mut h = random_header(&mut rng);
      h[OFF_RAM] = c;
      h[OFF_CHK] = good_checksum(&h);
      hdr_line(h, w);
    }
  }
  // (4) titles: the regression corpus, then generated byte strings (what get_title makes of them)
  for bt in BAD_TITLES.iter() {
    let mut h = random_header(&mut rng);
    for b in h[OFF_TITLE..OFF_TITLE + 11].iter_mut() { *b = 0; }
    h[OFF_TITLE..OFF_TITLE + bt.len()].copy_from_slice(bt);
    h[OFF_CHK] = good_checksum(&h);
    hdr_line(h, w);
  }
  let nt = if opts.thorough { 60000 } else { 3000 };
  for _ in 0..nt {
    let mut h = random_header(&mut rng);
    let t = wild_title(&mut rng);
    h[OFF_TITLE..OFF_TITLE + 11].copy_from_slice(&t);
    hdr_line(h, w);
  }
  let _ = std::panic::take_hook();
}

// ---------------------------------------------------------------- c19.file

#[derive(Clone)]
/// `pb`: the bank NUMBER the probe writes to the controller's registers; `mk`: the bank of the file whose last byte is 'Z'
struct Case { missing: bool, hdr: [u8; 80], len: u64, pb: usize, mk: usize }

/// bank counts of the cartridge-header standard (test-input generation only)
fn std_banks(code: u8) -> Option<usize> {
  match code { 0..=8 => Some(2usize << code), 0x52 => Some(72), 0x53 => Some(80), 0x54 => Some(96), _ => None }
}

/// the bank the probe selects: the last declared bank the controller's registers can reach
fn probe_bank(typ: u8, romcode: u8) -> usize {
  let banks = std_banks(romcode).unwrap_or(2);
  match typ {
    0x01..=0x03 | 0x0f..=0x13 => banks.min(128) - 1,
    _ => 1,
  }
}

fn probe_code(typ: u8, pb: usize) -> Vec<u8> {
  let (lo, hi) = match typ {
    0x01..=0x03 => ((pb & 0x1f) as u8, (pb >> 5) as u8), // MBC1: 5 low bits at 0x2000, 2 high bits at 0x4000
    _ => ((pb & 0x7f) as u8, 0u8),                        // MBC3: 7 bits at 0x2000 (RAM bank 0 at 0x4000)
  };
  let mut c = vec![
    0x3e, lo, 0xea, 0x00, 0x20,       // LD A,lo ; LD (0x2000),A
    0x3e, hi, 0xea, 0x00, 0x40,       // LD A,hi ; LD (0x4000),A
    0xfa, 0xff, 0x7f,                 // LD A,(0x7FFF)
    0xe0, 0x01, 0x3e, 0x81, 0xe0, 0x02, // serial: the byte read
    0x3e, 0x4b, 0xe0, 0x01, 0x3e, 0x81, 0xe0, 0x02, // 'K'
    0x3e, 0x0a, 0xe0, 0x01, 0x3e, 0x81, 0xe0, 0x02, // '\n'
  ];
  let here = 0x150 + c.len();
  c.extend_from_slice(&[0xc3, (here & 0xff) as u8, (here >> 8) as u8]); // JP self
  c
}

fn ascii_title(rng: &mut Rng) -> [u8; 11] {
  const CH: &[u8] = b"ABCDEFGHIJLMNOPQRSTUVWXYZ0123456789 -"; // no 'K' (the probe's marker), no quote
  let n = 1 + rng.below(11) as usize;
  let mut t = [0u8; 11];
  for i in 0..n { t[i] = *rng.pick(CH); }
  if t[n - 1] == b' ' { t[n - 1] = b'X'; }
  t
}

/// title bytes as a file may hold them: ASCII, NULs anywhere, UTF-8 lead bytes with and without their continuation
/// bytes, stray continuation bytes (also in first place), bytes no UTF-8 text contains; never 'K' (the probe's marker)
fn wild_title(rng: &mut Rng) -> [u8; 11] {
  let mut t = [0u8; 11];
  let n = 1 + rng.below(11) as usize;
  let mut i = 0;
  while i < n {
    let lead: u8 = match rng.below(12) {
      0 | 1 => 0x20 + (rng.u8() % 0x5f),
      2 => 0,
      3 => 0x80 + (rng.u8() % 0x40),
      4 => 0xc2 + (rng.u8() % 0x1e),
      5 => *rng.pick(&[0xe0u8, 0xe1, 0xec, 0xed, 0xee, 0xef]),
      6 => *rng.pick(&[0xf0u8, 0xf1, 0xf3, 0xf4]),
      7 => *rng.pick(&[0xc0u8, 0xc1, 0xf5, 0xf8, 0xfe, 0xff]),
      _ => rng.u8(),
    };
    t[i] = lead; i += 1;
    // mostly well-formed continuations, sometimes cut short or out of the lead byte's range
    let want = match lead { 0xc2..=0xdf => 1, 0xe0..=0xef => 2, 0xf0..=0xf4 => 3, _ => 0 };
    let have = if rng.chance(1, 3) { rng.below(want as u64 + 1) as usize } else { want };
    for k in 0..have {
      if i >= n { break; }
      t[i] = if k == 0 && rng.chance(1, 3) { *rng.pick(&[0x80u8, 0x8f, 0x90, 0x9f, 0xa0, 0xbf]) } else { 0x80 + (rng.u8() % 0x40) };
      i += 1;
    }
  }
  for b in t.iter_mut() { if *b == b'K' { *b = b'L'; } }
  t
}

/// titles that made the unfixed `get_title` misbehave (regression corpus, runs first in its group)
const BAD_TITLES: &[&[u8]] = &[b"\x80", b"\x80\x80\x80", b"\xbf\xbf", b"ABC\xff", b"ABC\xc9", b"\xf0\x90",
  b"ABCDEFGHIJ\xe2", b"\xe0\x80A", b"\xed\xa0\x80", b"\xf4\x90\x80\x80", b"A\x00B\x00\x00", b"\x00\x80"];

/// a header for the file stream: entry NOP; JP 0x150, random bytes elsewhere, valid checksum; the title is ASCII in
/// half of the cases and any bytes (`wild_title`) in the other half
fn file_header(rng: &mut Rng, typ: u8, romcode: u8, ramcode: u8) -> [u8; 80] {
  let mut h = random_header(rng);
  h[0..4].copy_from_slice(&[0x00, 0xc3, 0x50, 0x01]);
  let title = if rng.chance(1, 2) { ascii_title(rng) } else { wild_title(rng) };
  h[OFF_TITLE..OFF_TITLE + 11].copy_from_slice(&title);
  h[OFF_TYPE] = typ; h[OFF_ROM] = romcode; h[OFF_RAM] = ramcode;
  h[OFF_CHK] = good_checksum(&h);
  h
}

fn mk_case(hdr: [u8; 80], len: u64) -> Case {
  let pb = probe_bank(hdr[OFF_TYPE], hdr[OFF_ROM]);
  Case { missing: false, hdr, len, pb, mk: pb }
}

/// a bank NUMBER beyond the declared count: the controller reduces it to the cartridge's size (C12), so the probe
/// must read the marker in bank `number mod count` - and never leave the mapped file
fn wrap_case(hdr: [u8; 80], len: u64, sel: usize) -> Case {
  let banks = std_banks(hdr[OFF_ROM]).unwrap_or(2);
  let eff = match hdr[OFF_TYPE] {
    0x01..=0x03 => if sel & 0x1f == 0 { sel + 1 } else { sel },
    0x0f..=0x13 => if sel & 0x7f == 0 { 1 } else { sel & 0x7f },
    _ => 1,
  };
  Case { missing: false, hdr, len, pb: sel, mk: eff % banks }
}

fn declared(romcode: u8) -> u64 { (std_banks(romcode).unwrap_or(2) * 0x4000) as u64 }

fn lengths_around(d: u64) -> Vec<u64> {
  let mut v = vec![0, 1, 0xff, 0x100, 0x101, 0x14d, 0x14e, 0x14f, 0x150, 0x151, 0x1000, 0x4000, 0x7fff, 0x8000,
    d - 0x4000, d - 0x1001, d - 0x1000, d - 0xfff, d - 1, d, d + 1, d + 0x1000, d + 0x4000];
  v.sort(); v.dedup();
  v
}

fn gen_cases(opts: &Opts) -> Vec<Case> {
  let mut rng = Rng::new(opts.seed ^ 0xc19);
  let mut cs: Vec<Case> = Vec::new();
  let t = opts.thorough;
  // (a) a path that does not exist
  cs.push(Case { missing: true, hdr: file_header(&mut rng, 1, 0, 0), len: 0, pb: 1, mk: 1 });
  // (a') titles that are not UTF-8, valid checksum, complete file of a supported type: must load
  for (k, bt) in BAD_TITLES.iter().enumerate() {
    let typ = [0x00u8, 0x01, 0x13][k % 3];
    let mut h = file_header(&mut rng, typ, (k % 2) as u8, 0);
    for b in h[OFF_TITLE..OFF_TITLE + 11].iter_mut() { *b = 0; }
    h[OFF_TITLE..OFF_TITLE + bt.len()].copy_from_slice(bt);
    h[OFF_CHK] = good_checksum(&h);
    cs.push(mk_case(h, declared(h[OFF_ROM])));
  }
  // (b) lengths around 0x100, 0x150 and the declared size, valid headers
  let cfgs: &[(u8, u8)] = if t { &[(0x00, 0), (0x01, 0), (0x01, 1), (0x03, 5), (0x11, 2), (0x13, 6), (0x01, 0x52), (0x12, 0x54), (0x01, 8), (0x05, 1), (0x01, 0x60)] }
                          else { &[(0x00, 0), (0x01, 1), (0x13, 2), (0x05, 1)] };
  for &(typ, rc) in cfgs {
    let ram = rng.u8() % 6;
    let h = file_header(&mut rng, typ, rc, ram);
    for l in lengths_around(declared(rc)) { cs.push(mk_case(h, l)); }
  }
  // (c) every checksum byte (one valid, 255 invalid) on complete files
  let fills = if t { 6 } else { 1 };
  for k in 0..fills {
    let typ = [0x01u8, 0x00, 0x13, 0x02, 0x11, 0x19][k % 6];
    let h = file_header(&mut rng, typ, (k % 3) as u8, 0);
    for c in 0..=255u8 {
      let mut h2 = h;
      h2[OFF_CHK] = c;
      cs.push(mk_case(h2, declared(h[OFF_ROM])));
    }
  }
  // (d) every cartridge type byte, valid checksum, complete file (thorough: also one byte short, and 32 KiB of a 64 KiB ROM)
  for typ in 0..=255u8 {
    let ram = rng.u8() % 6;
    let h = file_header(&mut rng, typ, 1, ram);
    cs.push(mk_case(h, declared(1)));
    if t {
      cs.push(mk_case(h, declared(1) - 1));
      cs.push(mk_case(h, 0x8000));
    }
  }
  // (e) ROM size codes x lengths relative to the declared size
  let codes: Vec<u8> = if t { (0..=255u8).collect() }
                       else { vec![0, 1, 2, 3, 4, 5, 6, 7, 8, 0x52, 0x53, 0x54, 0x09, 0x51, 0x55, 0xff] };
  for &rc in codes.iter() {
    let types: &[u8] = if t { &[0x00, 0x01, 0x03, 0x11, 0x13] } else { &[0x01, 0x13] };
    for &typ in types {
      let ram = rng.u8() % 6;
      let h = file_header(&mut rng, typ, rc, ram);
      let d = declared(rc);
      let mut ls = vec![d, d - 1, d - 0x1000, d - 0x4000, 0x8000];
      if t { ls.push(d + 0x4000); ls.push(0x150); }
      ls.sort(); ls.dedup();
      for l in ls { cs.push(mk_case(h, l)); }
    }
  }
  // (e') bank numbers beyond the declared count on complete files: every size code with fewer than 128 banks,
  // both controllers; numbers just past the count, the largest the registers hold, and random ones in between
  for &rc in [0u8, 1, 2, 3, 4, 5, 0x52, 0x53, 0x54].iter() {
    let banks = std_banks(rc).unwrap();
    for &typ in [0x01u8, 0x13, 0x03, 0x11].iter().take(if t { 4 } else { 2 }) {
      let ram = rng.u8() % 6;
      let h = file_header(&mut rng, typ, rc, ram);
      let mut sels = vec![banks, banks + 1, banks + 2, 127, banks + rng.below((128 - banks) as u64) as usize];
      if t { for _ in 0..4 { sels.push(banks + rng.below((128 - banks) as u64) as usize); } }
      sels.sort(); sels.dedup();
      for sel in sels { cs.push(wrap_case(h, declared(rc), sel)); }
    }
  }
  // (f) random headers with a valid checksum over the standard's codes, random lengths near the declared size
  let n = if t { 600 } else { 40 };
  for _ in 0..n {
    let typ = *rng.pick(&[0x00u8, 0x01, 0x02, 0x03, 0x11, 0x12, 0x13, 0x0f, 0x10, 0x05, 0x19, 0x08, 0xfc, 0xff]);
    let rc = *rng.pick(&[0u8, 1, 2, 3, 4, 5, 6, 7, 8, 0x52, 0x53, 0x54]);
    let ram = rng.u8() % 8;
    let mut h = file_header(&mut rng, typ, rc, ram);
    if rng.chance(1, 8) { h[OFF_CHK] ^= 1 << rng.below(8); }
    let d = declared(rc);
    let l = match rng.below(6) {
      0 => d, 1 => d - 1 - rng.below(0x2000), 2 => d + rng.below(0x2000), 3 => rng.below(0x200),
      4 => (rng.below(d / 0x1000) + 1) * 0x1000, _ => d - 0x1000 * (1 + rng.below(3)),
    };
    cs.push(mk_case(h, l));
  }
  cs
}

fn bin_path(opts: &Opts) -> PathBuf {
  if let Some(p) = opts.get("bin") { return PathBuf::from(p); }
  // <work>/target/nojit/release/gbh -> <work>/target/bin/release/gb-dynarec
  if let Ok(exe) = std::env::current_exe() {
    if let Some(t) = exe.parent().and_then(|p| p.parent()).and_then(|p| p.parent()) {
      let p = t.join("bin").join("release").join("gb-dynarec");
      if p.exists() { return p; }
    }
  }
  PathBuf::from("/verif/.work/target/bin/release/gb-dynarec")
}

fn work_dir(opts: &Opts) -> PathBuf {
  if let Some(p) = opts.get("dir") { return PathBuf::from(p); }
  if let Ok(exe) = std::env::current_exe() {
    // <work>/target/nojit/release/gbh -> <work>/c19
    if let Some(t) = exe.parent().and_then(|p| p.parent()).and_then(|p| p.parent()).and_then(|p| p.parent()) {
      return t.join("c19");
    }
  }
  PathBuf::from("/verif/.work/c19")
}

fn write_rom(path: &PathBuf, c: &Case) -> std::io::Result<()> {
  let mut f = std::fs::File::create(path)?;
  f.set_len(c.len)?;
  let mut put = |off: u64, data: &[u8]| -> std::io::Result<()> {
    if off >= c.len { return Ok(()); }
    let n = ((c.len - off) as usize).min(data.len());
    f.seek(SeekFrom::Start(off))?;
    f.write_all(&data[..n])
  };
  put(0x100, &c.hdr)?;
  put(0x150, &probe_code(c.hdr[OFF_TYPE], c.pb))?;
  put((0x4000 * c.mk + 0x3fff) as u64, &[0x5a])?;
  Ok(())
}

fn read_prefix(path: &PathBuf, n: usize) -> Vec<u8> {
  let mut v = Vec::new();
  if let Ok(f) = std::fs::File::open(path) { let _ = f.take(n as u64).read_to_end(&mut v); }
  v
}

fn find(hay: &[u8], pat: &[u8]) -> bool { hay.windows(pat.len()).any(|w| w == pat) }

/// run the real binary on one case; returns the protocol line
fn run_case(bin: &PathBuf, dir: &PathBuf, tag: &str, c: &Case, deadline_ms: u64, grace_ms: u64) -> String {
  let rom = dir.join(format!("{}.gb", tag));
  let outp = dir.join(format!("{}.out", tag));
  let errp = dir.join(format!("{}.err", tag));
  let _ = std::fs::remove_file(&rom);
  if !c.missing { write_rom(&rom, c).expect("cannot write ROM file under .work/c19"); }
  let so = std::fs::File::create(&outp).expect("stdout file");
  let se = std::fs::File::create(&errp).expect("stderr file");
  let mut cmd = std::process::Command::new(bin);
  cmd.arg(&rom).stdin(std::process::Stdio::null()).stdout(so).stderr(se).env_remove("RUST_BACKTRACE");
  let mut child = cmd.spawn().expect("cannot start the gb-dynarec binary (built by the runner: repo_bin)");
  let start = Instant::now();
  let mut marker_at: Option<Instant> = None;
  let status: String;
  loop {
    match child.try_wait() {
      Ok(Some(st)) => {
        status = if let Some(sig) = st.signal() { format!("sig:{}", sig) }
                 else { format!("exit:{}", st.code().unwrap_or(-1)) };
        break;
      }
      Ok(None) => {}
      Err(_) => { status = "exit:-2".to_string(); break; }
    }
    let now = Instant::now();
    if marker_at.is_none() {
      let o = read_prefix(&outp, 4096);
      if find(&o, b"K\n") || find(&o, b"No ROM, loading fallback\n") { marker_at = Some(now); }
    }
    let done = match marker_at { Some(t) => now.duration_since(t) >= Duration::from_millis(grace_ms), None => false };
    if done || now.duration_since(start) >= Duration::from_millis(deadline_ms) {
      let _ = child.kill();
      let _ = child.wait();
      status = "alive".to_string();
      break;
    }
    std::thread::sleep(Duration::from_millis(2));
  }
  let out = read_prefix(&outp, 160);
  let err = read_prefix(&errp, 200);
  let _ = std::fs::remove_file(&rom);
  let _ = std::fs::remove_file(&outp);
  let _ = std::fs::remove_file(&errp);
  format!("c19.file kind={} hdr={} len={} pb={} mk={} | out={} err={} status={}",
    if c.missing { "missing" } else { "file" }, hex(&c.hdr), c.len, c.pb, c.mk, hex(&out), hex(&err), status)
}

fn run_file(opts: &Opts, w: &mut dyn Write) {
  let bin = bin_path(opts);
  if !bin.exists() {
    eprintln!("c19.file: {} not found (the runner builds it when the propdef has repo_bin)", bin.display());
    std::process::exit(3);
  }
  let dir = work_dir(opts);
  std::fs::create_dir_all(&dir).expect("cannot create the scratch directory");
  // children inherit this: a faulting gb-dynarec leaves no core file (and std can use posix_spawn)
  unsafe {
    let z = libc::rlimit { rlim_cur: 0, rlim_max: 0 };
    libc::setrlimit(libc::RLIMIT_CORE, &z);
  }
  let deadline = opts.get_usize("deadline-ms", 15000) as u64;
  let grace = opts.get_usize("grace-ms", 15) as u64;
  let pid = std::process::id();

  if let Some(line) = opts.get("replay-line") {
    let tok = |k: &str| line.split_whitespace().find_map(|t| t.strip_prefix(k)).unwrap_or("").to_string();
    let v = unhex(&tok("hdr="));
    if v.len() != 80 { eprintln!("replay line has no 80-byte hdr="); std::process::exit(2); }
    let mut hdr = [0u8; 80];
    hdr.copy_from_slice(&v);
    let c = Case { missing: tok("kind=") == "missing", hdr, len: tok("len=").parse().unwrap_or(0), pb: tok("pb=").parse().unwrap_or(1),
      mk: tok("mk=").parse().unwrap_or(tok("pb=").parse().unwrap_or(1)) };
    writeln!(w, "{}", run_case(&bin, &dir, &format!("r{}", pid), &c, deadline, grace)).unwrap();
    return;
  }

  let mut cases = gen_cases(opts);
  if let Some(sh) = opts.get("shard") {
    let p: Vec<usize> = sh.split('/').filter_map(|x| x.parse().ok()).collect();
    if p.len() == 2 && p[1] > 0 {
      cases = cases.into_iter().enumerate().filter(|(i, _)| i % p[1] == p[0]).map(|(_, c)| c).collect();
    }
  }
  let cases = Arc::new(cases);
  let results: Arc<Mutex<Vec<Option<String>>>> = Arc::new(Mutex::new(vec![None; cases.len()]));
  let next = Arc::new(AtomicUsize::new(0));
  let nthreads = opts.get_usize("jobs", std::thread::available_parallelism().map(|n| n.get()).unwrap_or(4).min(6));
  let mut hs = Vec::new();
  for t in 0..nthreads {
    let (cases, results, next, bin, dir) = (cases.clone(), results.clone(), next.clone(), bin.clone(), dir.clone());
    hs.push(std::thread::spawn(move || {
      loop {
        let i = next.fetch_add(1, Ordering::SeqCst);
        if i >= cases.len() { break; }
        let line = run_case(&bin, &dir, &format!("p{}t{}", pid, t), &cases[i], deadline, grace);
        results.lock().unwrap()[i] = Some(line);
      }
    }));
  }
  for h in hs { h.join().expect("worker thread"); }
  for r in results.lock().unwrap().iter() {
    writeln!(w, "{}", r.as_ref().expect("missing result")).unwrap();
  }
}

pub fn run(sub: &str, opts: &Opts, w: &mut dyn Write) {
  match sub {
    "hdr" => run_hdr(opts, w),
    "file" => run_file(opts, w),
    _ => {
      eprintln!("unknown sub-stream c19.{} (hdr | file)", sub);
      std::process::exit(2);
    }
  }
}
