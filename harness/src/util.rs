//! Shared helpers: options, the single PRNG, hex.
use std::collections::HashMap;

pub struct Opts {
  pub thorough: bool,
  pub seed: u64,
  pub kv: HashMap<String, String>,
}

impl Opts {
  pub fn parse(args: &[String]) -> Self {
    let mut kv = HashMap::new();
    let mut i = 0;
    while i < args.len() {
      if let Some(k) = args[i].strip_prefix("--") {
        let v = if i + 1 < args.len() && !args[i + 1].starts_with("--") { i += 1; args[i].clone() } else { String::from("1") };
        kv.insert(k.to_string(), v);
      }
      i += 1;
    }
    let tier = kv.get("tier").cloned().or_else(|| std::env::var("VERIF_TIER").ok()).unwrap_or_else(|| "quick".into());
    let seed = kv.get("seed").cloned().or_else(|| std::env::var("VERIF_SEED").ok())
      .and_then(|s| s.parse::<u64>().ok()).unwrap_or(1);
    Opts { thorough: tier == "thorough", seed, kv }
  }
  pub fn get_usize(&self, k: &str, d: usize) -> usize {
    self.kv.get(k).and_then(|s| s.parse().ok()).unwrap_or(d)
  }
  /// `--shard i/n` -> (i, n); default (0, 1)
  pub fn shard(&self) -> (usize, usize) {
    match self.kv.get("shard") {
      Some(s) => {
        let mut it = s.split('/');
        let i = it.next().and_then(|x| x.parse().ok()).unwrap_or(0);
        let n = it.next().and_then(|x| x.parse().ok()).unwrap_or(1);
        (i, if n == 0 { 1 } else { n })
      },
      None => (0, 1),
    }
  }
  pub fn get(&self, k: &str) -> Option<&String> { self.kv.get(k) }
}

/// xorshift64* — the one PRNG every random choice derives from
pub struct Rng(pub u64);
impl Rng {
  pub fn new(seed: u64) -> Self { Rng(seed.wrapping_mul(0x9E3779B97F4A7C15) | 1) }
  pub fn next(&mut self) -> u64 {
    let mut x = self.0;
    x ^= x >> 12; x ^= x << 25; x ^= x >> 27;
    self.0 = x;
    x.wrapping_mul(0x2545F4914F6CDD1D)
  }
  pub fn below(&mut self, n: u64) -> u64 { if n == 0 { 0 } else { self.next() % n } }
  pub fn u8(&mut self) -> u8 { (self.next() >> 32) as u8 }
  pub fn u16(&mut self) -> u16 { (self.next() >> 32) as u16 }
  pub fn chance(&mut self, num: u64, den: u64) -> bool { self.below(den) < num }
  pub fn pick<'a, T>(&mut self, xs: &'a [T]) -> &'a T { &xs[self.below(xs.len() as u64) as usize] }
}

pub fn hex(bytes: &[u8]) -> String {
  let mut s = String::with_capacity(bytes.len() * 2);
  for b in bytes { s.push_str(&format!("{:02x}", b)); }
  s
}
