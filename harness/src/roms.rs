//! Cartridge construction shared by the bus streams: pattern ROM files (one per ROM-size code, cached under
//! /verif/.work/roms), headers built in memory, and `MemoryAreas::with_rom_file` on them.
use crate::cart::Header;
use crate::mem::MemoryAreas;
use std::fs::{self, File, OpenOptions};
use std::io::Write;

/// ROM pattern shared with the Lean driver: Knuth multiplicative hash of the global index
pub fn rom_byte(i: usize) -> u8 {
  ((((i as u64).wrapping_mul(2654435761)) & 0xffff_ffff) >> 13) as u8
}

pub fn work_dir() -> String {
  let exe = std::env::current_exe().unwrap();
  // .../.work/target/<x>/release/gbh  -> .../.work
  let mut p = exe.clone();
  for _ in 0..4 { p.pop(); }
  p.to_string_lossy().to_string()
}

pub fn header_bytes(cart_type: u8, rom_code: u8, ram_code: u8) -> [u8; 80] {
  let mut h = [0u8; 80];
  h[0] = 0x00; h[1] = 0xc3; h[2] = 0x50; h[3] = 0x01;
  for (i, c) in b"VERIFROM".iter().enumerate() { h[0x34 + i] = *c; }
  h[0x47] = cart_type;
  h[0x48] = rom_code;
  h[0x49] = ram_code;
  let mut check: u8 = 0;
  for i in 0x34..0x4d { check = check.wrapping_sub(h[i]).wrapping_sub(1); }
  h[0x4d] = check;
  h
}

pub fn header(cart_type: u8, rom_code: u8, ram_code: u8) -> Header {
  unsafe { std::mem::transmute::<[u8; 80], Header>(header_bytes(cart_type, rom_code, ram_code)) }
}

pub fn rom_bank_count(rom_code: u8) -> usize { header(0, rom_code, 0).get_rom_bank_count() }

/// file of the declared size filled with `rom_byte`; `patch` overrides bytes (offset, value).
/// Unpatched pattern files are cached per size under .work/roms (created atomically); patched ones are
/// unlinked as soon as they are opened.
pub fn rom_file_with(name: &str, size: usize, patch: &[(usize, u8)]) -> File {
  let dir = format!("{}/roms", work_dir());
  fs::create_dir_all(&dir).unwrap();
  let cached = format!("{}/pat_{}.bin", dir, size);
  if patch.is_empty() {
    if let Ok(f) = OpenOptions::new().read(true).open(&cached) {
      if f.metadata().map(|m| m.len() as usize == size).unwrap_or(false) { return f; }
    }
  }
  let path = format!("{}/{}_{}_{}.tmp", dir, name, size, std::process::id());
  let mut data = Vec::with_capacity(size);
  for i in 0..size { data.push(rom_byte(i)); }
  for (o, v) in patch { if *o < size { data[*o] = *v; } }
  let mut f = File::create(&path).unwrap();
  f.write_all(&data).unwrap();
  drop(f);
  if patch.is_empty() {
    let _ = fs::rename(&path, &cached);
    return OpenOptions::new().read(true).open(&cached).unwrap();
  }
  let f = OpenOptions::new().read(true).open(&path).unwrap();
  let _ = fs::remove_file(&path); // mapping keeps the inode alive; nothing is left on disk
  f
}

/// the real `MemoryAreas::with_rom_file` on a pattern ROM of the declared size
pub fn mk_mem(cart_type: u8, rom_code: u8, ram_code: u8, patch: &[(usize, u8)]) -> MemoryAreas {
  let h = header(cart_type, rom_code, ram_code);
  let size = h.get_rom_size_bytes();
  let mut f = rom_file_with("pat", size, patch);
  MemoryAreas::with_rom_file(&mut f, &h)
}

/// like `mk_mem`, with further header bytes set (offset into the 80 header bytes, value) and the checksum recomputed:
/// Color / Super Game Boy flags, licensee and destination codes, version
pub fn mk_mem_x(cart_type: u8, rom_code: u8, ram_code: u8, extra: &[(usize, u8)]) -> MemoryAreas {
  let mut hb = header_bytes(cart_type, rom_code, ram_code);
  for (o, v) in extra.iter() { hb[*o] = *v; }
  let mut check: u8 = 0;
  for i in 0x34..0x4d { check = check.wrapping_sub(hb[i]).wrapping_sub(1); }
  hb[0x4d] = check;
  let h = unsafe { std::mem::transmute::<[u8; 80], Header>(hb) };
  let size = h.get_rom_size_bytes();
  let mut f = rom_file_with("pat", size, &[]);
  MemoryAreas::with_rom_file(&mut f, &h)
}

/// the real `Core::from_rom_file` on a pattern ROM of the declared size
pub fn mk_core(cart_type: u8, rom_code: u8, ram_code: u8) -> crate::emulator::Core {
  let h = header(cart_type, rom_code, ram_code);
  let size = h.get_rom_size_bytes();
  let mut f = rom_file_with("pat", size, &[]);
  crate::emulator::Core::from_rom_file(&mut f, h)
}

pub fn fnv(h: u64, b: u8) -> u64 { (h ^ (b as u64)).wrapping_mul(0x100000001b3) }
pub const FNV0: u64 = 0xcbf29ce484222325;

pub const TYPES: [u8; 7] = [0x00, 0x01, 0x02, 0x03, 0x11, 0x12, 0x13];
pub const ROM_CODES: [u8; 12] = [0, 1, 2, 3, 4, 5, 6, 7, 8, 0x52, 0x53, 0x54];
pub const RAM_CODES: [u8; 6] = [0, 1, 2, 3, 4, 5];

/// region boundaries and other interesting bus addresses (DESIGN §2.2)
pub const BOUNDARY: [u16; 44] = [
  0x0000, 0x0001, 0x1fff, 0x2000, 0x3fff, 0x4000, 0x5fff, 0x6000, 0x7fff, 0x8000, 0x9fff, 0xa000, 0xa7ff, 0xa800,
  0xbfff, 0xc000, 0xcfff, 0xd000, 0xdfff, 0xe000, 0xfdff, 0xfe00, 0xfe9f, 0xfea0, 0xfeff, 0xff00, 0xff01, 0xff02,
  0xff04, 0xff05, 0xff06, 0xff07, 0xff0f, 0xff40, 0xff41, 0xff45, 0xff46, 0xff47, 0xff4b, 0xff7f, 0xff80, 0xffc6,
  0xfffe, 0xffff,
];
