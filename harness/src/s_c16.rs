//! C16: OAM DMA. One scenario per line on a real `MemoryAreas` (pattern ROM, RAM regions pre-filled with a formula the
//! Lean driver reproduces): bus writes (`w:addr:value`, incl. the DMA register 0xFF46, source bytes, bank registers)
//! and catch-up batches (`b:clocks`, the real `MemoryAreas::run_clock_cycles`).
//!
//! c16 type=T rom=R ram=M banks=B ramb=RB ev=w:a:v,b:n,... | r=<one record per batch, ';'-separated> fd=<digest of all RAM outside OAM at the end>
//!   record = ab:pb:sb:aa:pa:oam0:src:oam1:d0:d1
//!     ab/aa  DMA active before/after the batch (oam_dma is Some), pb/pa progress (current_offset, 160 when finished or idle),
//!     sb     source address in the DMA state before the batch (hook DMAState::verif_state), 0 when idle
//!     oam0/oam1  the 160 OAM bytes before/after, src = the 160 bytes at XX00..XX9F read through memory_read_byte just
//!     before the batch (XX = last byte written to 0xFF46; empty before the first DMA), d0/d1 digest of VRAM, cartridge
//!     RAM, WRAM, HRAM and IE before/after.
//! c16.inv type=.. pre=N page=XX segs=gap:addr:value,... part=<random split of every gap> |
//!     of= oc= or= (final OAM when every gap is split into 4-clock batches / run as one batch / split as `part`)
//!     df= dc= dr= (digests of the other RAM) pf= pc= pr= (progress, 160 = finished)
use crate::mem::{memory_read_byte, memory_write_byte, MemoryAreas};
use crate::roms::*;
use crate::timing::ClockCycles;
use crate::util::{hex, Opts, Rng};
use std::io::Write;

#[derive(Clone, Copy)]
pub enum Ev { W(u16, u8), B(usize) }

pub fn prefill(mem: &mut MemoryAreas) {
  for i in 0..mem.video_ram.len() { mem.video_ram[i] = rom_byte(0x8000 + i + 12345); }
  for i in 0..mem.cart_ram.len() { mem.cart_ram[i] = rom_byte(i + 54321); }
  for i in 0..mem.work_ram.len() { mem.work_ram[i] = rom_byte(0xc000 + i + 12345); }
  for i in 0..mem.oam_ram.len() { mem.oam_ram[i] = rom_byte(0xfe00 + i + 12345); }
  for i in 0..mem.high_ram.len() { mem.high_ram[i] = rom_byte(0xff80 + i + 12345); }
}

/// every RAM byte outside OAM and outside the I/O window (whose timer/LCD registers advance with time)
pub fn other_digest(mem: &MemoryAreas) -> u64 {
  let mut h = FNV0;
  for b in mem.video_ram.iter() { h = fnv(h, *b); }
  for b in mem.cart_ram.iter() { h = fnv(h, *b); }
  for b in mem.work_ram.iter() { h = fnv(h, *b); }
  for b in mem.high_ram.iter() { h = fnv(h, *b); }
  h = fnv(h, mem.io.interrupt_mask | mem.io.interrupt_mask_upper);
  h
}

fn dma_state(mem: &MemoryAreas) -> (u8, usize, usize) {
  match mem.oam_dma {
    Some(d) => { let (s, o) = d.verif_state(); (1, o as usize, s) },
    None => (0, 160, 0),
  }
}

fn read_page(p: *mut MemoryAreas, page: u8) -> Vec<u8> {
  (0..160u16).map(|i| memory_read_byte(p, ((page as u16) << 8) + i)).collect()
}

/// runs the events on a fresh cartridge; returns the batch records and the final (oam, digest, progress)
pub fn run_events(t: u8, r: u8, m: u8, evs: &[Ev], records: bool) -> (Vec<String>, Vec<u8>, u64, usize) {
  let mut mem = mk_mem(t, r, m, &[]);
  prefill(&mut mem);
  let p = &mut mem as *mut MemoryAreas;
  let mut page: Option<u8> = None;
  let mut recs = Vec::new();
  for ev in evs.iter() {
    match *ev {
      Ev::W(a, v) => { memory_write_byte(p, a, v); if a == 0xff46 { page = Some(v); } },
      Ev::B(n) => {
        if records {
          let (ab, pb, sb) = dma_state(&mem);
          let oam0 = hex(&mem.oam_ram);
          let src = match page { Some(pg) => hex(&read_page(p, pg)), None => String::new() };
          let d0 = other_digest(&mem);
          mem.run_clock_cycles(ClockCycles(n));
          let (aa, pa, _) = dma_state(&mem);
          recs.push(format!("{}:{}:{}:{}:{}:{}:{}:{}:{}:{}", ab, pb, sb, aa, pa, oam0, src, hex(&mem.oam_ram), d0, other_digest(&mem)));
        } else {
          mem.run_clock_cycles(ClockCycles(n));
        }
      },
    }
  }
  let (_, pa, _) = dma_state(&mem);
  let oam = mem.oam_ram.to_vec();
  let d = other_digest(&mem);
  (recs, oam, d, pa)
}

pub fn ev_string(evs: &[Ev]) -> String {
  let v: Vec<String> = evs.iter().map(|e| match *e { Ev::W(a, v) => format!("w:{}:{}", a, v), Ev::B(n) => format!("b:{}", n) }).collect();
  v.join(",")
}

pub const QUICK_PAGES: [u8; 40] = [
  0x00, 0x01, 0x1f, 0x20, 0x3f, 0x40, 0x41, 0x5f, 0x60, 0x7f, 0x80, 0x81, 0x97, 0x9f, 0xa0, 0xa7, 0xa8, 0xb0, 0xbf, 0xc0,
  0xc1, 0xcf, 0xd0, 0xdf, 0xe0, 0xe1, 0xef, 0xf0, 0xfd, 0xfe, 0xff, 0x13, 0x2a, 0x55, 0x6b, 0x8c, 0xb5, 0xca, 0xd9, 0xf7,
];

pub const CFGS: [(u8, u8, u8); 6] = [(0x00, 0, 0), (0x03, 2, 3), (0x13, 4, 3), (0x03, 0, 1), (0x01, 1, 0), (0x13, 0x52, 4)];

const SIZES: [usize; 20] = [4, 8, 12, 16, 20, 40, 100, 156, 160, 320, 636, 640, 644, 1000, 1020, 1024, 1028, 2048, 4096, 70224];

/// a write between two batches: pending / already copied source byte, unrelated RAM, bank switch, or a restart
fn gen_between(rng: &mut Rng, page: &mut u8, prog: &mut usize, evs: &mut Vec<Ev>) {
  let base = (*page as u16) << 8;
  let safe = |off: u16, page: u8| -> u16 { if page == 0xff && (off == 0x46 || off == 0x02) { off + 1 } else { off } };
  match rng.below(8) {
    0 | 1 => { // a source byte that is still to be copied
      let off = if *prog < 160 { *prog as u16 + rng.below((160 - *prog) as u64) as u16 } else { rng.below(160) as u16 };
      evs.push(Ev::W(base + safe(off, *page), rng.u8()));
    },
    2 => { // a source byte that has been copied already
      let off = if *prog > 0 { rng.below(*prog as u64) as u16 } else { 0 };
      evs.push(Ev::W(base + safe(off, *page), rng.u8()));
    },
    3 => { // RAM that is neither source nor destination
      let a = *rng.pick(&[0x8000u16, 0x9fff, 0xa000, 0xbfff, 0xc000, 0xdfff, 0xff80, 0xfffe, 0xffff, 0xfea0, 0xe000]);
      evs.push(Ev::W(a, rng.u8()));
    },
    4 => { evs.push(Ev::W(*rng.pick(&[0x2000u16, 0x3fff, 0x2100]), rng.u8())); },
    5 => { evs.push(Ev::W(*rng.pick(&[0x4000u16, 0x5fff, 0x6000, 0x0000]), rng.below(4) as u8 | if rng.chance(1, 4) { 0x0a } else { 0 })); },
    6 => { // the destination itself
      evs.push(Ev::W(0xfe00 + rng.below(160) as u16, rng.u8()));
    },
    _ => { // restart with a new page
      let np = match rng.below(3) { 0 => *page, 1 => *rng.pick(&QUICK_PAGES), _ => rng.u8() };
      evs.push(Ev::W(0xff46, np));
      *page = np; *prog = 0;
    },
  }
}

pub fn gen_scenario(rng: &mut Rng, page0: u8, style: u64) -> Vec<Ev> {
  let mut evs = Vec::new();
  // one scenario in three runs with the LCD on (a transfer takes longer than a line, so it overlaps the OAM search and
  // the pixel transfer of at least one line unless it falls into VBlank): the copy and CPU writes to OAM are the same
  if rng.chance(1, 3) {
    evs.push(Ev::W(0xff40, 0x80 | rng.u8()));
    if rng.chance(1, 2) { evs.push(Ev::B(4 * rng.below(18000) as usize)); }
  }
  // idle time first: no DMA is active, nothing may change; also moves the LCD/timer phase
  if rng.chance(1, 2) { evs.push(Ev::B(4 * rng.below(300) as usize)); }
  if (0x40..0x80).contains(&page0) || rng.chance(1, 6) {
    evs.push(Ev::W(0x2000, rng.u8()));
    if rng.chance(1, 2) { evs.push(Ev::W(0x4000, rng.below(4) as u8)); }
    if rng.chance(1, 3) { evs.push(Ev::W(0x6000, 1)); }
  }
  if (0xa0..0xc0).contains(&page0) || rng.chance(1, 6) {
    evs.push(Ev::W(0x4000, rng.below(4) as u8));
    if rng.chance(1, 2) { evs.push(Ev::W(0x6000, 1)); }
  }
  let mut page = page0;
  let mut prog = 0usize;
  evs.push(Ev::W(0xff46, page));
  // totals beyond 255 machine cycles matter: a block may run for thousands of cycles before the devices are caught up
  let total = 640 + *rng.pick(&[0usize, 4, 40, 360, 384, 388, 1408, 3456]);
  let mut t = 0usize;
  let fixed = *rng.pick(&[8usize, 12, 16, 28, 156, 320, 636]);
  let mut restarts = 0;
  while t < total {
    let n = match style {
      0 => total,
      1 => 4,
      2 => *rng.pick(&SIZES),
      _ => fixed,
    };
    evs.push(Ev::B(n));
    t += n;
    prog = (prog + n / 4).min(160);
    let between = match style { 0 => false, 1 => rng.chance(1, 12), _ => rng.chance(1, 3) };
    if between && t < total {
      let before = page; let pb = prog;
      gen_between(rng, &mut page, &mut prog, &mut evs);
      if prog == 0 && (pb != 0 || before != page) { restarts += 1; if restarts <= 2 { t = 0; } }
    }
  }
  // a finished DMA stays finished
  evs.push(Ev::B(*rng.pick(&[4usize, 16, 640])));
  evs
}

fn split_gap(rng: &mut Rng, gap: usize) -> Vec<usize> {
  let mut v = Vec::new();
  let mut left = gap;
  while left > 0 {
    let n = (*rng.pick(&SIZES)).min(left);
    v.push(n); left -= n;
  }
  v
}

fn kv<'a>(line: &'a str, key: &str) -> &'a str {
  let pat = format!("{}=", key);
  for tok in line.split(' ') { if tok == "|" { break; } if let Some(v) = tok.strip_prefix(pat.as_str()) { return v; } }
  ""
}
fn num(s: &str) -> usize { s.parse().unwrap_or(0) }

fn inv_case(t: u8, r: u8, m: u8, pre: usize, page: u8, segs: &[(usize, u16, u8)], tail: usize, part: &[Vec<usize>], w: &mut dyn Write) {
  let build = |mode: u8| -> Vec<Ev> {
    let mut evs = Vec::new();
    if pre > 0 { evs.push(Ev::B(pre)); }
    evs.push(Ev::W(0xff46, page));
    for (k, g) in segs.iter().map(|s| s.0).chain(std::iter::once(tail)).enumerate() {
      match mode {
        0 => { for _ in 0..g / 4 { evs.push(Ev::B(4)); } },
        1 => evs.push(Ev::B(g)),
        _ => { for n in part[k].iter() { evs.push(Ev::B(*n)); } },
      }
      if k < segs.len() { evs.push(Ev::W(segs[k].1, segs[k].2)); }
    }
    evs
  };
  let (_, of, df, pf) = run_events(t, r, m, &build(0), false);
  let (_, oc, dc, pc) = run_events(t, r, m, &build(1), false);
  let (_, or, dr, pr) = run_events(t, r, m, &build(2), false);
  let ss: Vec<String> = segs.iter().map(|(g, a, v)| format!("{}:{}:{}", g, a, v)).collect();
  let ps: Vec<String> = part.iter().map(|p| p.iter().map(|n| n.to_string()).collect::<Vec<_>>().join("+")).collect();
  writeln!(w, "c16.inv type={} rom={} ram={} banks={} ramb={} pre={} page={} segs={} tail={} part={} | of={} oc={} or={} df={} dc={} dr={} pf={} pc={} pr={}",
    t, r, m, rom_bank_count(r), header(t, r, m).get_ram_size_bytes(), pre, page, ss.join(","), tail, ps.join(","),
    hex(&of), hex(&oc), hex(&or), df, dc, dr, pf, pc, pr).unwrap();
}

fn main_case(t: u8, r: u8, m: u8, evs: &[Ev], w: &mut dyn Write) {
  let (recs, _, fd, _) = run_events(t, r, m, evs, true);
  writeln!(w, "c16 type={} rom={} ram={} banks={} ramb={} ev={} | r={} fd={}", t, r, m, rom_bank_count(r), header(t, r, m).get_ram_size_bytes(),
    ev_string(evs), recs.join(";"), fd).unwrap();
}

/// re-runs exactly the case whose inputs are in `line`
fn replay(line: &str, w: &mut dyn Write) {
  let (t, r, m) = (num(kv(line, "type")) as u8, num(kv(line, "rom")) as u8, num(kv(line, "ram")) as u8);
  if line.starts_with("c16.inv") {
    let segs: Vec<(usize, u16, u8)> = kv(line, "segs").split(',').filter(|s| !s.is_empty()).map(|s| {
      let f: Vec<&str> = s.split(':').collect(); (num(f[0]), num(f[1]) as u16, num(f[2]) as u8) }).collect();
    let part: Vec<Vec<usize>> = kv(line, "part").split(',').map(|p| p.split('+').map(num).collect()).collect();
    inv_case(t, r, m, num(kv(line, "pre")), num(kv(line, "page")) as u8, &segs, num(kv(line, "tail")), &part, w);
  } else {
    let evs: Vec<Ev> = kv(line, "ev").split(',').filter(|s| !s.is_empty()).map(|s| {
      let f: Vec<&str> = s.split(':').collect();
      if f[0] == "w" { Ev::W(num(f[1]) as u16, num(f[2]) as u8) } else { Ev::B(num(f[1])) } }).collect();
    main_case(t, r, m, &evs, w);
  }
}

pub fn run(sub: &str, opts: &Opts, w: &mut dyn Write) {
  if let Some(line) = opts.get("replay-line") {
    if opts.shard().0 == 0 && line.starts_with("c16.inv") == (sub == "inv") { replay(line, w); }
    return;
  }
  let (shard, nshards) = opts.shard();
  let pages: Vec<u8> = if opts.thorough { (0..=255u8).collect() } else { QUICK_PAGES.to_vec() };
  if sub == "inv" {
    let mut rng = Rng::new(opts.seed ^ 0xc16f);
    let reps = if opts.thorough { 24 } else { 2 };
    let mut idx = 0usize;
    for rep in 0..reps { for &page in pages.iter() {
      idx += 1;
      let (t, r, m) = CFGS[(idx + rep) % CFGS.len()];
      let pre = 4 * rng.below(1200) as usize;
      // segments: a gap of time, then one write
      let nseg = rng.below(4) as usize;
      let mut segs: Vec<(usize, u16, u8)> = Vec::new();
      let mut prog = 0usize; let mut pg = page;
      for _ in 0..nseg {
        let gap = 4 * (1 + rng.below(100)) as usize;
        prog = (prog + gap / 4).min(160);
        let mut evs = Vec::new();
        gen_between(&mut rng, &mut pg, &mut prog, &mut evs);
        if let Ev::W(a, v) = evs[0] { segs.push((gap, a, v)); }
      }
      let tail = 4 * (160 + rng.below(40)) as usize;
      let mut part: Vec<Vec<usize>> = Vec::new();
      for (g, _, _) in segs.iter() { part.push(split_gap(&mut rng, *g)); }
      part.push(split_gap(&mut rng, tail));
      if idx % nshards != shard { continue; }
      inv_case(t, r, m, pre, page, &segs, tail, &part, w);
    }}
    return;
  }
  let mut rng = Rng::new(opts.seed ^ 0xc16);
  let ncfg = if opts.thorough { 6 } else { 1 };
  let rounds = if opts.thorough { 2 } else { 1 };
  let mut idx = 0usize;
  for _round in 0..rounds { for &page in pages.iter() { for style in 0..4u64 { for c in 0..ncfg {
    idx += 1;
    // the 160-batch style is long: one configuration per page
    if style == 1 && c > 0 { continue; }
    let (t, r, m) = CFGS[(page as usize + style as usize + 2 * c) % CFGS.len()];
    let evs = gen_scenario(&mut rng, page, style);
    if idx % nshards != shard { continue; }
    main_case(t, r, m, &evs, w);
  }}}}
}
