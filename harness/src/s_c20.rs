//! C20: debugger command parsing and disassembly, through the real functions
//! `debug::command::{parse_command, parse_address}`, `debug::disassembly::disassemble`, `decoder::decode`.
//!
//! Strings travel as comma-separated hexadecimal Unicode scalar values (`cp=62,72,65,61,6b`; empty = empty string).
//!
//! c20.addr   cp=<token> | r=<none|N>                          parse_address (panic => r=panic)
//! c20.cmd    cp=<line>  | r=<none|breakset:N|continue|readmem:N|readregs|step|other|panic>   parse_command
//! c20.disasm addr=<N> bytes=<hex> dl=<l,l,..> trunc=<0|1> | n=<count> a=<a,a,..> l=<l,l,..> b=<hex> (or panic=1)
//!            bytes = concatenation of instructions built from the real decoder (dl = its lengths; with trunc=1 the
//!            last instruction is cut short); the outputs are read back from `Display` of each `Instruction`
//! c20.dec    b0=<N> b1=<N> | len=<l> clk=<c> inv=<0|1> p1=<0|1> p2=<0|1>   decode(&[b0,b1,0x12]); p1/p2 = decode
//!            panics on the 1-byte / 2-byte prefix of that slice (ties the generated table incl. operand reads)
//! c20.uni    c=<hex> | ws=<0|1> lo=<hex,..>                   char::is_whitespace / char::to_lowercase of every scalar
use crate::debug::command::{parse_address, parse_command, Command};
use crate::debug::disassembly::disassemble;
use crate::decoder::{decode, ops::Op};
use crate::util::{hex, Opts, Rng};
use std::io::Write;
use std::panic::{catch_unwind, AssertUnwindSafe};

fn cps(s: &str) -> String {
  let v: Vec<String> = s.chars().map(|c| format!("{:x}", c as u32)).collect();
  v.join(",")
}

fn from_cps(s: &str) -> String {
  if s.is_empty() { return String::new(); }
  s.split(',').filter_map(|h| u32::from_str_radix(h, 16).ok()).filter_map(char::from_u32).collect()
}

fn field<'a>(line: &'a str, key: &str) -> Option<&'a str> {
  let inputs = line.split(" | ").next().unwrap_or("");
  for tok in inputs.split(' ') {
    if let Some(v) = tok.strip_prefix(key) {
      if let Some(v) = v.strip_prefix('=') { return Some(v); }
    }
  }
  None
}

fn shard(opts: &Opts) -> (u64, u64) {
  if let Some(s) = opts.get("shard") {
    let mut it = s.split('/');
    let i = it.next().and_then(|x| x.parse().ok()).unwrap_or(0);
    let n = it.next().and_then(|x| x.parse().ok()).unwrap_or(1);
    (i, if n == 0 { 1 } else { n })
  } else { (0, 1) }
}

// ------------------------------------------------------------------------------------------------ addr

fn emit_addr(w: &mut dyn Write, tok: &str) {
  let r = catch_unwind(|| parse_address(tok));
  let rs = match r {
    Ok(Some(v)) => format!("{}", v),
    Ok(None) => "none".to_string(),
    Err(_) => "panic".to_string(),
  };
  writeln!(w, "c20.addr cp={} | r={}", cps(tok), rs).unwrap();
}

const MALFORMED: &[&str] = &[
  "", " ", "\t", "-1", "-0", "65536", "65537", "99999", "100000", "4294967296", "18446744073709551616",
  "99999999999999999999999999999999", "0x10000", "0x10001", "0xfffff", "0x100000000", "0X10", "0XFF", "0Xff",
  "12a", "a12", "1 2", " 12 ", "\t12\n", "\u{3000}12\u{2003}", "12\u{200b}", "+5", "+0", "+65535", "+65536", "0x+5",
  "0x+ffff", "0x+10000", "+0x5", "++5", "+-5", "-+5", "+", "-", "0x", "0x+", "0x-", "0x-1", "x10", "0xx10", "0x0x10",
  "1_000", "0x1_0", "1e3", "1.0", "1,0", "0b101", "0o17", "#10", "$10", "10h", "0xg", "0xG", "ff", "FF", "0xFFFF",
  "0xffff", "0xFfFf", "00000000000000000000065535", "0x0000000000000000ffff", "0x00000000000000010000",
  "\u{663}", "\u{ff11}\u{ff12}", "1\u{ff12}", "\u{0661}\u{0662}", "0x\u{ff21}", "\u{1d7ce}", "\u{212a}", "0\u{78}10",
  "0\u{445}10", "\u{feff}12", "12\u{feff}", "\u{1c}12", "12\u{85}", "\u{85}12\u{a0}", "12\u{0}", "\u{0}", "0x ff", "0 x10",
  "١٢٣", "１２３", "0ｘ10", "৪২",
];

fn run_addr(opts: &Opts, w: &mut dyn Write) {
  let mut rng = Rng::new(opts.seed ^ 0xadd2);
  // every 16-bit value in both notations, several spellings
  for n in 0..=0xffffu32 {
    emit_addr(w, &format!("{}", n));
    emit_addr(w, &format!("{:#x}", n));
    emit_addr(w, &format!("0x{:X}", n));
    let z = 1 + rng.below(6) as usize;
    emit_addr(w, &format!("{}{}", "0".repeat(z), n));
    // hex, leading zeros, each letter in random case
    let mut h = String::from("0x");
    h.push_str(&"0".repeat(rng.below(5) as usize));
    for ch in format!("{:x}", n).chars() {
      h.push(if rng.chance(1, 2) { ch.to_ascii_uppercase() } else { ch });
    }
    emit_addr(w, &h);
    // 4-digit forms as the debugger prints them
    emit_addr(w, &format!("{:#06X}", n));
    if n % 16 == 0 || opts.thorough {
      emit_addr(w, &format!("+{}", n));
      emit_addr(w, &format!("0x+{:x}", n));
      emit_addr(w, &format!(" {}\t", n));
      emit_addr(w, &format!("-{}", n));
      emit_addr(w, &format!("0X{:x}", n));
    }
  }
  // just out of range, and far out of range
  for n in 65536u64..(if opts.thorough { 200_000 } else { 70_000 }) {
    emit_addr(w, &format!("{}", n));
    emit_addr(w, &format!("{:#x}", n));
  }
  for k in 0..64u32 {
    let n = 1u128 << (16 + k);
    emit_addr(w, &format!("{}", n));
    emit_addr(w, &format!("{:#x}", n));
    emit_addr(w, &format!("{}", n - 1));
    emit_addr(w, &format!("{:#X}", n + 1));
  }
  for m in MALFORMED { emit_addr(w, m); }
  // random tokens over an alphabet that makes near-misses likely, plus arbitrary scalars
  let alpha: Vec<char> = "0123456789abcdefABCDEFxX+- \tgG_.\u{a0}\u{3000}\u{ff10}\u{663}\u{212a}\u{200b}".chars().collect();
  let count = if opts.thorough { 2_000_000 } else { 100_000 };
  for _ in 0..count {
    let len = rng.below(9) as usize;
    let mut s = String::new();
    if rng.chance(1, 3) { s.push_str("0x"); }
    for _ in 0..len {
      if rng.chance(1, 40) { s.push(random_scalar(&mut rng)); } else { s.push(*rng.pick(&alpha)); }
    }
    emit_addr(w, &s);
  }
}

fn random_scalar(rng: &mut Rng) -> char {
  loop {
    let v = match rng.below(6) {
      0 => rng.below(0x80) as u32,
      1 => rng.below(0x800) as u32,
      2 | 3 => rng.below(0x10000) as u32,
      4 => 0x2000 + rng.below(0x100) as u32,
      _ => rng.below(0x110000) as u32,
    };
    if let Some(c) = char::from_u32(v) { return c; }
  }
}

// ------------------------------------------------------------------------------------------------ cmd

fn cmd_str(r: std::thread::Result<Option<Command>>) -> String {
  match r {
    Err(_) => "panic".into(),
    Ok(None) => "none".into(),
    Ok(Some(Command::BreakSet(a))) => format!("breakset:{}", a),
    Ok(Some(Command::Continue)) => "continue".into(),
    Ok(Some(Command::ReadMemory(a))) => format!("readmem:{}", a),
    Ok(Some(Command::ReadRegisters)) => "readregs".into(),
    Ok(Some(Command::Step)) => "step".into(),
    Ok(Some(_)) => "other".into(),
  }
}

fn emit_cmd(w: &mut dyn Write, line: &str) {
  let r = catch_unwind(|| parse_command(line));
  writeln!(w, "c20.cmd cp={} | r={}", cps(line), cmd_str(r)).unwrap();
}

const WORDS: &[&str] = &["break", "c", "continue", "info", "p", "print", "s", "step", "reg", "registers"];
const NEAR: &[&str] = &["brea", "breakk", "b", "continu", "cont", "cc", "inf", "infos", "pr", "prin", "printf", "ste",
  "steps", "ss", "regs", "register", "r", "x", "help", "quit", "break;", "step,", "\"step\"", "c.", "info:registers",
  "breakset", "readregisters", "BreakSet(1)", "0x10", "12"];
const ASCII_WS: &[char] = &[' ', '\t', '\n', '\u{b}', '\u{c}', '\r'];
const UNI_WS: &[char] = &['\u{85}', '\u{a0}', '\u{1680}', '\u{2000}', '\u{2001}', '\u{2002}', '\u{2003}', '\u{2004}',
  '\u{2005}', '\u{2006}', '\u{2007}', '\u{2008}', '\u{2009}', '\u{200a}', '\u{2028}', '\u{2029}', '\u{202f}',
  '\u{205f}', '\u{3000}'];
// not White_Space although they look or sound like it
const FAKE_WS: &[char] = &['\u{200b}', '\u{200c}', '\u{200d}', '\u{2060}', '\u{feff}', '\u{180e}', '\u{1c}', '\u{1d}',
  '\u{1e}', '\u{1f}', '\u{0}', '\u{7f}', '\u{84}', '\u{86}', '\u{9f}', '\u{ad}', '\u{2800}', '\u{3164}', '\u{1fff}',
  '\u{200e}', '\u{202e}', '\u{2027}', '\u{202a}', '\u{2fff}', '\u{3001}', '\u{167f}', '\u{1681}'];

fn ws(rng: &mut Rng, min: u64, max: u64, s: &mut String) {
  let n = min + rng.below(max - min + 1);
  for _ in 0..n {
    let c = match rng.below(10) {
      0..=5 => *rng.pick(ASCII_WS),
      6..=8 => *rng.pick(UNI_WS),
      _ => ' ',
    };
    s.push(c);
  }
}

/// a command word in random letter case; with `confuse`, some letters replaced by Unicode look-alikes / case partners
fn word(rng: &mut Rng, base: &str, confuse: bool, s: &mut String) {
  for ch in base.chars() {
    let c = if rng.chance(1, 2) { ch.to_ascii_uppercase() } else { ch };
    if confuse && rng.chance(1, 3) {
      let alt: &[char] = match ch {
        'k' => &['\u{212a}', '\u{ff4b}', '\u{ff2b}', '\u{43a}', '\u{39a}'],
        's' => &['\u{17f}', '\u{ff53}', '\u{ff33}', '\u{455}', '\u{405}'],
        'i' => &['\u{130}', '\u{131}', '\u{ff49}', '\u{456}', '\u{406}', '\u{1e9e}'],
        'c' => &['\u{441}', '\u{421}', '\u{ff43}', '\u{3f2}', '\u{3f9}'],
        'e' => &['\u{435}', '\u{415}', '\u{ff45}', '\u{212f}', '\u{c9}'],
        'p' => &['\u{440}', '\u{420}', '\u{ff50}', '\u{3c1}', '\u{3a1}'],
        'o' => &['\u{43e}', '\u{41e}', '\u{3bf}', '\u{39f}', '\u{ff4f}'],
        'a' => &['\u{430}', '\u{410}', '\u{212b}', '\u{c5}', '\u{ff41}'],
        'r' => &['\u{ff52}', '\u{ff32}', '\u{211b}'],
        't' => &['\u{ff54}', '\u{ff34}', '\u{3a4}', '\u{fb05}', '\u{fb06}'],
        'n' => &['\u{ff4e}', '\u{ff2e}', '\u{207f}', '\u{149}'],
        _ => &['\u{3a3}', '\u{3c2}', '\u{df}', '\u{1f0}', '\u{fb00}', '\u{10400}', '\u{1e921}'],
      };
      s.push(*rng.pick(alt));
    } else {
      s.push(c);
    }
  }
}

fn addr_token(rng: &mut Rng, s: &mut String) {
  match rng.below(12) {
    0..=2 => s.push_str(&format!("{}", rng.u16())),
    3..=4 => s.push_str(&format!("{:#x}", rng.u16())),
    5 => s.push_str(&format!("0x{:04X}", rng.u16())),
    6 => s.push_str(&format!("{}{}", "0".repeat(rng.below(4) as usize), rng.below(70000))),
    7 => s.push_str(&format!("{:#x}", rng.below(0x12000))),
    8 => s.push_str(&format!("+{}", rng.u16())),
    9 => s.push_str((*rng.pick(MALFORMED)).trim_matches(char::is_whitespace)),
    10 => { s.push_str(&format!("{}", rng.u16())); s.push(*rng.pick(FAKE_WS)); }
    _ => s.push_str(&format!("0X{:x}", rng.u16())),
  }
}

fn garbage(rng: &mut Rng, s: &mut String) {
  let cap = if rng.chance(1, 50) { 400 } else { 14 };
  let n = rng.below(cap);
  for _ in 0..n {
    match rng.below(12) {
      0..=3 => s.push((0x20 + rng.below(0x5f) as u8) as char),
      4 => s.push(*rng.pick(ASCII_WS)),
      5 => s.push(*rng.pick(UNI_WS)),
      6 => s.push(*rng.pick(FAKE_WS)),
      7 => s.push_str(*rng.pick(WORDS)),
      8 => s.push_str(*rng.pick(NEAR)),
      _ => s.push(random_scalar(rng)),
    }
  }
}

fn gen_cmd_line(rng: &mut Rng) -> String {
  let mut s = String::new();
  let kind = rng.below(20);
  match kind {
    // well-formed: ws* WORD (ws+ arg)? ws* (ws garbage)?
    0..=10 => {
      ws(rng, 0, 3, &mut s);
      let base = *rng.pick(&WORDS[..8]);
      word(rng, base, kind == 10, &mut s);
      match base {
        "break" | "p" | "print" => {
          if !rng.chance(1, 10) { ws(rng, 1, 3, &mut s); addr_token(rng, &mut s); }
        }
        "info" => {
          if !rng.chance(1, 10) {
            ws(rng, 1, 3, &mut s);
            if rng.chance(4, 5) { let b = *rng.pick(&WORDS[8..]); let cf = rng.chance(1, 8); word(rng, b, cf, &mut s); }
            else { s.push_str(*rng.pick(NEAR)); }
          }
        }
        _ => {}
      }
      if rng.chance(1, 4) { ws(rng, 1, 2, &mut s); garbage(rng, &mut s); }
      ws(rng, 0, 3, &mut s);
    }
    // a separator that is not whitespace between word and argument / glued to the word
    11 | 12 => {
      ws(rng, 0, 2, &mut s);
      let b = *rng.pick(&WORDS[..8]);
      word(rng, b, false, &mut s);
      s.push(*rng.pick(FAKE_WS));
      if rng.chance(1, 2) { addr_token(rng, &mut s); }
    }
    // near misses
    13 | 14 => {
      ws(rng, 0, 2, &mut s);
      s.push_str(*rng.pick(NEAR));
      if rng.chance(1, 2) { ws(rng, 1, 2, &mut s); addr_token(rng, &mut s); }
    }
    // only whitespace / empty
    15 => { if rng.chance(2, 3) { ws(rng, 0, 6, &mut s); } }
    // pure garbage
    _ => garbage(rng, &mut s),
  }
  s
}

fn run_cmd(opts: &Opts, w: &mut dyn Write) {
  let (si, sn) = shard(opts);
  let total: u64 = opts.get_usize("lines", if opts.thorough { 10_000_000 } else { 100_000 }) as u64;
  let mut rng = Rng::new(opts.seed.wrapping_add(0xc0de).wrapping_add(si.wrapping_mul(0x1000003)));
  if si == 0 {
    // fixed corpus first: the repository's own test lines, every word in lower/upper case, boundary shapes
    for l in ["c", " continue  ", "step", "s  ", "p 0xff0f", "print 50", "info registers", "info reg", "", " ", "break",
              "break 0x10", "BREAK 65535", "break 65536", "break -1", "p", "print", "info", "info x", "info  REG  x",
              "step step", "c c", "breaK 5", "\u{212a}", "ſtep", "İnfo reg", "info\u{3000}registers", "p\u{a0}7",
              "step\u{200b}", "\u{feff}step", "break\t0x+5", "break +5", "p 0X10", "p ٣", "print 0x", "print +"] {
      emit_cmd(w, l);
    }
    for wd in WORDS { emit_cmd(w, wd); emit_cmd(w, &wd.to_uppercase()); emit_cmd(w, &format!(" {} 1", wd)); }
  }
  let mine = total / sn + if si < total % sn { 1 } else { 0 };
  for _ in 0..mine {
    let line = gen_cmd_line(&mut rng);
    emit_cmd(w, &line);
  }
}

// ------------------------------------------------------------------------------------------------ disasm

/// address and bytes of one `Instruction`, read back from its `Display` form
/// `{:#06X}  ` + `XX ` per byte + `   ` per missing byte up to 4 + text
fn read_back(text: &str) -> Option<(u32, Vec<u8>)> {
  let b = text.as_bytes();
  if b.len() < 20 || &b[0..2] != b"0x" || &b[6..8] != b"  " { return None; }
  let addr = u32::from_str_radix(std::str::from_utf8(&b[2..6]).ok()?, 16).ok()?;
  let mut bytes = Vec::new();
  let mut ended = false;
  for k in 0..4 {
    let slot = &b[8 + 3 * k..11 + 3 * k];
    if slot == b"   " { ended = true; continue; }
    if ended || slot[2] != b' ' { return None; }
    let v = u8::from_str_radix(std::str::from_utf8(&slot[0..2]).ok()?, 16).ok()?;
    bytes.push(v);
  }
  Some((addr, bytes))
}

fn emit_disasm(w: &mut dyn Write, addr: u16, bytes: &[u8], dl: &[usize], trunc: bool) {
  let dls: Vec<String> = dl.iter().map(|x| x.to_string()).collect();
  let head = format!("c20.disasm addr={} bytes={} dl={} trunc={}", addr, hex(bytes), dls.join(","), trunc as u8);
  let r = catch_unwind(AssertUnwindSafe(|| {
    let out = disassemble(addr, bytes);
    out.iter().map(|i| i.to_string()).collect::<Vec<String>>()
  }));
  match r {
    Err(_) => writeln!(w, "{} | panic=1", head).unwrap(),
    Ok(texts) => {
      let mut a = Vec::new();
      let mut l = Vec::new();
      let mut b = Vec::new();
      let mut bad = 0;
      for t in &texts {
        match read_back(t) {
          Some((ad, by)) => { a.push(ad.to_string()); l.push(by.len().to_string()); b.extend_from_slice(&by); }
          None => bad += 1,
        }
      }
      writeln!(w, "{} | n={} a={} l={} b={} unreadable={}", head, texts.len(), a.join(","), l.join(","), hex(&b), bad).unwrap();
    }
  }
}

fn gen_instr(rng: &mut Rng, out: &mut Vec<u8>) -> usize {
  // first byte: uniform, with the prefix, the 3-byte forms, STOP and the invalid bytes boosted
  let b0 = match rng.below(10) {
    0 => 0xcb,
    1 => *rng.pick(&[0x01u8, 0x08, 0x11, 0x21, 0x31, 0xc2, 0xc3, 0xc4, 0xca, 0xcc, 0xcd, 0xd2, 0xd4, 0xda, 0xdc, 0xea, 0xfa]),
    2 => *rng.pick(&[0x10u8, 0xd3, 0xdb, 0xdd, 0xe3, 0xe4, 0xeb, 0xec, 0xed, 0xf4, 0xfc, 0xfd, 0x76, 0x00, 0xff]),
    _ => rng.u8(),
  };
  // decode on a slice long enough for any form gives the decoder's length for this first byte (and second, after CB)
  let probe = [b0, rng.u8(), rng.u8(), rng.u8()];
  let (_, len, _) = decode(&probe);
  out.extend_from_slice(&probe[..len.min(4)]);
  len
}

fn run_disasm(opts: &Opts, w: &mut dyn Write) {
  let (si, sn) = shard(opts);
  let total: u64 = opts.get_usize("lists", if opts.thorough { 1_000_000 } else { 10_000 }) as u64;
  let mut rng = Rng::new(opts.seed.wrapping_add(0xd15a).wrapping_add(si.wrapping_mul(0x1000003)));
  if si == 0 {
    emit_disasm(w, 0, &[], &[], false);
    emit_disasm(w, 0xffff, &[0x00], &[1], false);
    emit_disasm(w, 0xfffe, &[0x01, 0x34, 0x12, 0xcb, 0x7c, 0x10, 0x00, 0xd3], &[3, 2, 2, 1], false);
    // every first byte (and every CB second byte) once, alone, at a wrapping address
    for b0 in 0..=255u8 {
      let mut v = Vec::new();
      let probe = [b0, 0xab, 0xcd, 0xef];
      let (_, len, _) = decode(&probe);
      v.extend_from_slice(&probe[..len.min(4)]);
      emit_disasm(w, 0xffff, &v, &[len], false);
      emit_disasm(w, 0x0000, &[0xcb, b0], &[2], false);
      // the same cut short by one byte
      if len > 1 { emit_disasm(w, 0x1234, &v[..len - 1], &[len], true); }
    }
    emit_disasm(w, 0x1234, &[0xcb], &[2], true);
  }
  let mine = total / sn + if si < total % sn { 1 } else { 0 };
  for _ in 0..mine {
    let n = if rng.chance(1, 20) { rng.below(200) } else { rng.below(12) } as usize;
    let mut bytes = Vec::new();
    let mut dl = Vec::new();
    for _ in 0..n { dl.push(gen_instr(&mut rng, &mut bytes)); }
    let addr = match rng.below(4) {
      0 => (0x10000 - (bytes.len() as u32 % 0x10000).min(rng.below(8) as u32 + bytes.len() as u32 / 2)) as u16,
      1 => *rng.pick(&[0u16, 1, 0x3fff, 0x4000, 0x7fff, 0x8000, 0xfffd, 0xfffe, 0xffff]),
      _ => rng.u16(),
    };
    // sometimes cut the last instruction short (outside the property's premise; ties the model's panic)
    let mut trunc = false;
    if rng.chance(1, 12) {
      if let Some(&last) = dl.last() {
        if last > 1 { let cut = 1 + rng.below(last as u64 - 1) as usize; bytes.truncate(bytes.len() - cut); trunc = true; }
      }
    }
    emit_disasm(w, addr, &bytes, &dl, trunc);
  }
}

// ------------------------------------------------------------------------------------------------ dec / uni

fn run_dec(_opts: &Opts, w: &mut dyn Write) {
  for b0 in 0..=255u8 {
    for b1 in 0..=255u8 {
      let (op, len, clk) = decode(&[b0, b1, 0x12]);
      let inv = matches!(op, Op::Invalid(_)) as u8;
      let p1 = catch_unwind(|| { let _ = decode(&[b0]); }).is_err() as u8;
      let p2 = catch_unwind(|| { let _ = decode(&[b0, b1]); }).is_err() as u8;
      writeln!(w, "c20.dec b0={} b1={} | len={} clk={} inv={} p1={} p2={}", b0, b1, len, clk, inv, p1, p2).unwrap();
    }
  }
}

fn run_uni(_opts: &Opts, w: &mut dyn Write) {
  for v in 0..=0x10ffffu32 {
    if let Some(c) = char::from_u32(v) {
      let lo: Vec<String> = c.to_lowercase().map(|x| format!("{:x}", x as u32)).collect();
      // the str-level function the parser really calls, on the char alone
      let ls: String = c.to_string().to_lowercase();
      let lo2: Vec<String> = ls.chars().map(|x| format!("{:x}", x as u32)).collect();
      writeln!(w, "c20.uni c={:x} | ws={} lo={} slo={}", v, c.is_whitespace() as u8, lo.join(","), lo2.join(",")).unwrap();
    }
  }
}

// ------------------------------------------------------------------------------------------------ entry

fn replay(sub: &str, line: &str, w: &mut dyn Write) {
  match sub {
    "addr" => emit_addr(w, &from_cps(field(line, "cp").unwrap_or(""))),
    "cmd" => emit_cmd(w, &from_cps(field(line, "cp").unwrap_or(""))),
    "disasm" => {
      let addr: u16 = field(line, "addr").and_then(|x| x.parse().ok()).unwrap_or(0);
      let hx = field(line, "bytes").unwrap_or("");
      let bytes: Vec<u8> = (0..hx.len() / 2).filter_map(|i| u8::from_str_radix(&hx[2 * i..2 * i + 2], 16).ok()).collect();
      let dl: Vec<usize> = field(line, "dl").unwrap_or("").split(',').filter_map(|x| x.parse().ok()).collect();
      let trunc = field(line, "trunc") == Some("1");
      emit_disasm(w, addr, &bytes, &dl, trunc);
    }
    _ => {}
  }
}

pub fn run(sub: &str, opts: &Opts, w: &mut dyn Write) {
  // panics are observations here (catch_unwind); keep stderr quiet
  std::panic::set_hook(Box::new(|_| {}));
  if let Some(line) = opts.get("replay-line") {
    replay(sub, line, w);
    return;
  }
  match sub {
    "addr" => run_addr(opts, w),
    "cmd" => run_cmd(opts, w),
    "disasm" => run_disasm(opts, w),
    "dec" => run_dec(opts, w),
    "uni" => run_uni(opts, w),
    other => {
      eprintln!("unknown stream c20.{}", other);
      std::process::exit(2);
    }
  }
}
