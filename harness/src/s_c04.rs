//! C04 (and the block-stepped part of C09): generated structured multi-block guest programs advanced block by block
//! through the real `Core::run_code_block` / `Core::update` of THIS build (recompiler when built with `--features jit`,
//! interpreter otherwise); the runner joins the lines of the two builds.  After every step a digest of the observable
//! machine state is recorded: registers, IME/run state, IF/IE, DIV/TIMA (clocks delivered), LY/STAT, OAM-DMA progress;
//! periodically and at the end all RAM, the frame buffer and the serial output.
//! c04 seed=<n> steps=<N> mode=<block|update> rom=<addr:hex,...> | s=<ip,af,sp,div,dg;...> ram=<digest;...> fb=<digest> ser=<hex> fin=<regs...>
use crate::emulator::{Core, RunState};
use crate::mem::{memory_read_byte, MemoryAreas};
use crate::roms::*;
use crate::s_c18::Capture;
use crate::util::{hex, Opts, Rng};
use std::io::Write;

struct Asm { rom: Vec<(usize, u8)>, pc: usize }

impl Asm {
  fn at(&mut self, pc: usize) { self.pc = pc; }
  fn b(&mut self, bytes: &[u8]) { for x in bytes { self.rom.push((self.pc, *x)); self.pc += 1; } }
}

/// data-only ALU / load instructions that are safe anywhere (no memory writes outside (HL) in WRAM, no control flow)
fn safe_ops(a: &mut Asm, rng: &mut Rng, n: usize) {
  for _ in 0..n {
    match rng.below(14) {
      0 => a.b(&[0x3e, rng.u8()]),              // LD A,n
      1 => a.b(&[0x80 + rng.below(6) as u8]),   // ADD A,r
      2 => a.b(&[0x88 + rng.below(6) as u8]),   // ADC A,r
      3 => a.b(&[0x90 + rng.below(6) as u8]),   // SUB r
      4 => a.b(&[0xa8 + rng.below(6) as u8]),   // XOR r
      5 => a.b(&[0x04 + 8 * rng.below(4) as u8]),   // INC B/C/D/E
      6 => a.b(&[0x27]),                        // DAA
      7 => { let z = *rng.pick(&[0u8, 1, 2, 3, 6, 7]); a.b(&[0xcb, (rng.u8() & 0x38) | z]) },  // CB rot/shift on B C D E (HL) A (H and L stay put)
      8 => a.b(&[0x77]),                        // LD (HL),A
      9 => a.b(&[0x7e]),                        // LD A,(HL)
      10 => a.b(&[0x2c]),                       // INC L
      11 => a.b(&[0xc6, rng.u8()]),             // ADD A,n
      12 => a.b(&[0x17]),                       // RLA
      _ => a.b(&[0x00]),
    }
  }
}

/// stack-relative address arithmetic in the middle of a block that ends in a plain RET / JP / JR:
/// LD HL,SP+e ; LD A,L ; LD HL,0xC000 (HL back to where the data ops expect it), or a balanced ADD SP,e pair
fn sp_ops(a: &mut Asm, rng: &mut Rng) {
  // (inside a subroutine called from the main loop SP ends in 0xFD: offsets 4..8 make the low byte of the sum 1..5)
  if rng.chance(2, 3) { let e = if rng.chance(2, 3) { *rng.pick(&[4u8, 5, 6, 7, 8, 2, 0x80, 0xfe]) } else { rng.u8() }; a.b(&[0xf8, e, 0x7d, 0x21, 0x00, 0xc0]); }
  else { let e = 1 + rng.below(0x7e) as u8; a.b(&[0xe8, e, 0xe8, (0u8).wrapping_sub(e)]); }
}

/// builds the program image: (rom patches, number of banks used)
fn build_program(seed: u64) -> Vec<(usize, u8)> {
  let mut rng = Rng::new(seed ^ 0xc04);
  let mut a = Asm { rom: Vec::new(), pc: 0 };
  // everything not written explicitly is a NOP sled with periodic jumps back to the main loop
  // (filled in by `load`), so stray paths stay defined.
  // interrupt handlers: PUSH AF ; LDH A,(counter) ; INC A ; LDH (counter),A ; [VBlank: maybe OAM DMA via HRAM routine] ; POP AF ; RETI
  for (k, v) in [0x40usize, 0x48, 0x50, 0x58, 0x60].iter().enumerate() {
    a.at(*v);
    a.b(&[0xf5, 0xf0, 0x90 + k as u8, 0x3c, 0xe0, 0x90 + k as u8, 0xf1, 0xd9]);
  }
  a.at(0x0000); a.b(&[0xc3, 0x50, 0x01]);
  a.at(0x0008); a.b(&[0x0c, 0xc9]);                       // RST 08: INC C ; RET
  a.at(0x0100); a.b(&[0x00, 0xc3, 0x50, 0x01]);
  // subroutines in bank 0
  for k in 0..8usize {
    a.at(0x2000 + k * 0x40);
    { let n = 2 + rng.below(6) as usize; safe_ops(&mut a, &mut rng, n); }
    if rng.chance(1, 2) { sp_ops(&mut a, &mut rng); }
    if rng.chance(1, 3) { a.b(&[0xc8 + 8 * rng.below(2) as u8 * 2]); } // RET Z / RET C (conditional), falls through to RET
    safe_ops(&mut a, &mut rng, 1);
    a.b(&[0xc9]);
  }
  // banked subroutines: different code at the same addresses in banks 1..7
  for bank in 1..8usize { for k in 0..4usize {
    a.at(bank * 0x4000 + k * 0x40);
    a.b(&[0x3e, (bank * 16 + k) as u8]);
    { let n = 1 + rng.below(5) as usize; safe_ops(&mut a, &mut rng, n); }
    a.b(&[0xc9]);
  }}
  // HRAM DMA routine source (copied to 0xFF80 by the program): LD A,page ; LDH (46),A ; LD A,40 ; DEC A ; JR NZ,-3 ; RET
  let dma_page = *rng.pick(&[0xc0u8, 0xc1, 0xd0, 0x80, 0x20, 0x41]);
  a.at(0x3000); a.b(&[0x3e, dma_page, 0xe0, 0x46, 0x3e, 0x28, 0x3d, 0x20, 0xfd, 0xc9]);
  // WRAM routine source (copied to 0xC100): a few ALU ops ; RET
  a.at(0x3020); safe_ops(&mut a, &mut rng, 5); a.b(&[0xc9]);
  let wram_len = a.pc - 0x3020;
  // bank-switching trampoline that lives in work RAM (copied to 0xC180): LD (0x2100),A ; JP 0x4000
  a.at(0x3060); a.b(&[0xea, 0x00, 0x21, 0xc3, 0x00, 0x40]);
  // a work-RAM routine that runs the SAME banked address under two banks with nothing but RAM code in between
  // (copied to 0xC1A0): LD A,b1 ; LD (0x2100),A ; CALL 0x4040 ; LD A,b2 ; LD (0x2100),A ; CALL 0x4040 ; RET
  let (rb1, rb2) = (1 + rng.below(8) as u8, 1 + rng.below(8) as u8);
  a.at(0x3080); a.b(&[0x3e, rb1, 0xea, 0x00, 0x21, 0xcd, 0x40, 0x40, 0x3e, rb2, 0xea, 0x00, 0x21, 0xcd, 0x40, 0x40, 0xc9]);
  // a long straight-line stretch in ONE block: INC B x 300 / 1030 / 2100 ; RET (block length must not depend on the engine:
  // an interrupt gets in at block ends only)
  let long_n = *rng.pick(&[300usize, 1030, 2100]);
  a.at(0x3100); for _ in 0..long_n { a.b(&[0x04]); } a.b(&[0xc9]);
  // a routine in the FIXED bank that reads a byte of the switchable bank (0x4001 holds bank*16 in banks 1..7, 0x50 in bank 0):
  // LD A,(0x4001) ; RET - its translation is shared by all banks, its result is not
  a.at(0x3a00); a.b(&[0xfa, 0x01, 0x40, 0xc9]);
  // main program
  a.at(0x0150);
  a.b(&[0xf3, 0x31, 0xff, 0xdf, 0x21, 0x00, 0xc0]);          // DI ; LD SP,0xDFFF ; LD HL,0xC000
  let ie = *rng.pick(&[0x00u8, 0x01, 0x04, 0x05, 0x07, 0x02, 0x03]);
  let tac = *rng.pick(&[0x00u8, 0x05, 0x05, 0x06, 0x07, 0x04]);
  let stat = *rng.pick(&[0x00u8, 0x08, 0x20, 0x40, 0x48, 0x10]);
  a.b(&[0x3e, *rng.pick(&[0x00u8, 0xf0, 0xfe]), 0xe0, 0x06]);  // TMA
  a.b(&[0x3e, tac, 0xe0, 0x07]);                              // TAC
  a.b(&[0x3e, stat, 0xe0, 0x41]);                             // STAT enables
  a.b(&[0x3e, *rng.pick(&[0u8, 1, 10, 144, 153]), 0xe0, 0x45]); // LYC
  a.b(&[0x3e, 0x91, 0xe0, 0x40, 0x3e, 0xe4, 0xe0, 0x47]);     // LCDC, BGP
  a.b(&[0x3e, ie, 0xe0, 0xff]);                               // IE
  // copy the HRAM routine: LD HL,0x3000 ; LD C,0x80 ; LD B,10 ; loop: LD A,(HL+) ; LD (C),A ; INC C ; DEC B ; JR NZ,loop
  a.b(&[0x21, 0x00, 0x30, 0x0e, 0x80, 0x06, 0x0a, 0x2a, 0xe2, 0x0c, 0x05, 0x20, 0xfa]);
  // copy the WRAM routine: LD HL,0x3020 ; LD DE,0xC100 ; LD B,len ; loop: LD A,(HL+) ; LD (DE),A ; INC DE ; DEC B ; JR NZ,loop
  a.b(&[0x21, 0x20, 0x30, 0x11, 0x00, 0xc1, 0x06, wram_len as u8, 0x2a, 0x12, 0x13, 0x05, 0x20, 0xfa]);
  // copy the WRAM trampoline: LD HL,0x3060 ; LD DE,0xC180 ; LD B,6 ; loop
  a.b(&[0x21, 0x60, 0x30, 0x11, 0x80, 0xc1, 0x06, 0x06, 0x2a, 0x12, 0x13, 0x05, 0x20, 0xfa]);
  // copy the two-bank RAM routine: LD HL,0x3080 ; LD DE,0xC1A0 ; LD B,17 ; loop
  a.b(&[0x21, 0x80, 0x30, 0x11, 0xa0, 0xc1, 0x06, 0x11, 0x2a, 0x12, 0x13, 0x05, 0x20, 0xfa]);
  a.b(&[0x21, 0x00, 0xc0]);
  if ie != 0 { a.b(&[0xfb]); }                               // EI
  let main_loop = a.pc;
  let nfrag = 6 + rng.below(10) as usize;
  for _ in 0..nfrag {
    match rng.below(15) {
      14 => {                                                // the fixed-bank reader under two banks: LD A,b1 ; LD (0x2100),A ; CALL 0x3A00 ; LD D,A ; LD A,b2 ; LD (0x2100),A ; CALL 0x3A00 ; ADD A,D
        let b1 = 1 + rng.below(8) as u8; let b2 = 1 + (b1 + rng.below(6) as u8) % 7;
        a.b(&[0x3e, b1, 0xea, 0x00, 0x21, 0xcd, 0x00, 0x3a, 0x57, 0x3e, b2, 0xea, 0x00, 0x21, 0xcd, 0x00, 0x3a, 0x82]);
      },
      13 => { a.b(&[0xcd, 0xa0, 0xc1]); },                    // same banked address under two banks, driven from work RAM
      10 => {                                                // two calls of the SAME banked address under different banks through the RAM trampoline
        // one time in three the pair is bank 1 and bank 8 (= bank 0 in the window on this 8-bank cartridge)
        let (b1, b2) = if rng.chance(1, 3) { if rng.chance(1, 2) { (1u8, 8u8) } else { (8, 1) } } else { let b1 = 1 + rng.below(7) as u8; (b1, 1 + (b1 + rng.below(6) as u8) % 7) };
        a.b(&[0x3e, b1, 0xcd, 0x80, 0xc1, 0x3e, b2, 0xcd, 0x80, 0xc1]);
      },
      11 => { a.b(&[0xcd, 0x00, 0x31]); },                    // the 300-instruction straight-line block
      12 => { a.b(&[0x06, 0x03, 0xcd, 0x00, 0x31, 0x3e, rng.u8(), 0x80]); },
      0 | 1 => {                                             // counted loop
        a.b(&[0x06, 1 + rng.below(20) as u8]);
        let top = a.pc;
        { let n = 1 + rng.below(6) as usize; safe_ops_nob(&mut a, &mut rng, n); }
        a.b(&[0x05, 0x20]); let d = (top as isize - (a.pc as isize + 1)) as i8; a.b(&[d as u8]);
      },
      2 => { let k = rng.below(8) as usize; let t = 0x2000 + k * 0x40; a.b(&[0xcd, (t & 0xff) as u8, (t >> 8) as u8]); },
      3 => { if (ie & 1 != 0) || (ie & 4 != 0 && tac & 4 != 0) || (ie & 2 != 0 && stat != 0) { a.b(&[0x76]); } else { a.b(&[0x00]); } },   // HALT only when something can wake it
      4 => { a.b(&[0xcd, 0x80, 0xff]); },                     // OAM DMA through the HRAM routine
      5 => { a.b(&[0xcd, 0x00, 0xc1]); },                     // code in work RAM
      6 => {                                                  // bank switch from bank 0, then call banked code
        let bank = 1 + rng.below(8) as u8; let k = rng.below(4) as usize; let t = 0x4000 + k * 0x40;   // 8 wraps to bank 0 in the window
        a.b(&[0x3e, bank, 0xea, 0x00, 0x21, 0xcd, (t & 0xff) as u8, (t >> 8) as u8]);
      },
      7 => { a.b(&[0x3e, rng.u8(), 0xe0, 0x01, 0x3e, 0x81, 0xe0, 0x02]); },   // serial byte
      8 => { a.b(&[0xc5, 0xd5, 0xe1, 0xc1, 0x21, 0x00, 0xc0]); safe_ops(&mut a, &mut rng, 3); },   // PUSH/POP
      _ => { { let n = 2 + rng.below(8) as usize; safe_ops(&mut a, &mut rng, n); } if rng.chance(1, 3) { sp_ops(&mut a, &mut rng); } if rng.chance(1, 4) { a.b(&[0xcf]); } },
    }
  }
  a.b(&[0xc3, (main_loop & 0xff) as u8, (main_loop >> 8) as u8]);
  a.rom
}

/// like safe_ops but never touches B (the loop counter)
fn safe_ops_nob(a: &mut Asm, rng: &mut Rng, n: usize) {
  for _ in 0..n {
    match rng.below(8) {
      0 => a.b(&[0x3e, rng.u8()]),
      1 => a.b(&[0x81 + rng.below(5) as u8]),
      2 => a.b(&[0x0c]),
      3 => a.b(&[0x77]),
      4 => a.b(&[0x2c]),
      5 => a.b(&[0xcb, 0x11 + rng.below(3) as u8]),
      6 => a.b(&[0x1c]),
      _ => a.b(&[0x00]),
    }
  }
}

pub fn load(seed: u64) -> Core {
  let mut core = mk_core(0x03, 2, 3);   // MBC1+RAM, 8 banks, 32 KiB RAM
  for i in 0..core.memory.rom.len() { core.memory.rom[i] = 0x00; }
  let mut i = 0x20usize;
  while i + 3 < core.memory.rom.len() { if (i & 0x3fff) < 0x3ff0 { core.memory.rom[i] = 0xc3; core.memory.rom[i + 1] = 0x50; core.memory.rom[i + 2] = 0x01; } i += 0x20; }
  for (at, b) in build_program(seed) { if at < core.memory.rom.len() { core.memory.rom[at] = b; } }
  core.registers.ip = 0x0100;
  core
}

fn ram_digest(core: &mut Core) -> u64 {
  let p = &mut core.memory as *mut MemoryAreas;
  let mut h = FNV0;
  for a in 0x8000u32..0x10000 { if !(0xff00..0xff80).contains(&a) { h = fnv(h, memory_read_byte(p, a as u16)); } }
  for b in core.memory.cart_ram.iter() { h = fnv(h, *b); }
  h
}

fn fb_digest(core: &Core) -> u64 {
  let mut h = FNV0;
  for b in core.get_screen_buffer().iter() { h = fnv(h, *b); }
  h
}

/// the program's ROM patches as `addr:hexbytes,...` in program order, for the model replay of the driver
fn patches_field(seed: u64) -> String {
  let mut segs: Vec<(usize, Vec<u8>)> = Vec::new();
  for (at, b) in build_program(seed) {
    match segs.last_mut() { Some((start, bytes)) if *start + bytes.len() == at => bytes.push(b), _ => segs.push((at, vec![b])) }
  }
  segs.iter().map(|(a, bs)| format!("{}:{}", a, hex(bs))).collect::<Vec<_>>().join(",")
}

pub fn run_one(seed: u64, steps: usize, update: bool, w: &mut dyn Write) {
  let mut core = load(seed);
  let cap = Capture::start();
  let mut s: Vec<String> = Vec::with_capacity(steps);
  let mut rams: Vec<String> = Vec::new();
  for k in 0..steps {
    if update { core.update(); } else if core.run_state == RunState::Run { core.run_code_block(); } else { core.update(); }
    let p = &mut core.memory as *mut MemoryAreas;
    let r = &core.registers;
    let (af, bc, de, hl, sp, ip) = (r.af, r.bc, r.de, r.hl, r.sp, r.ip);
    let t = core.memory.io.timer.verif_state();
    let dma = core.memory.oam_dma.map(|d| d.verif_state().1 as u32).unwrap_or(160);
    let mut dg = FNV0;
    for v in [bc, de, hl, core.memory.io.interrupt_flag.as_u8() as u32, memory_read_byte(p, 0xffff) as u32, t.1 as u32,
              memory_read_byte(p, 0xff44) as u32, memory_read_byte(p, 0xff41) as u32, dma,
              core.memory.cart_state.get_rom_bank() as u32, (core.run_state == RunState::Run) as u32,
              match core.interrupts_enabled { crate::emulator::InterruptState::Enabled => 0, crate::emulator::InterruptState::Disabled => 1, _ => 2 }] {
      for i in 0..4 { dg = fnv(dg, (v >> (8 * i)) as u8); }
    }
    s.push(format!("{},{},{},{},{}", ip, af, sp, t.0, dg));
    if k % 64 == 63 { rams.push(ram_digest(&mut core).to_string()); }
  }
  rams.push(ram_digest(&mut core).to_string());
  let fb = fb_digest(&core);
  let ser = cap.finish();
  writeln!(w, "c04 seed={} steps={} mode={} rom={} | s={} ram={} fb={} ser={}", seed, steps, if update { "update" } else { "block" },
    patches_field(seed), s.join(";"), rams.join(";"), fb, hex(&ser)).unwrap();
}

pub fn run(_sub: &str, opts: &Opts, w: &mut dyn Write) {
  let (shard, nshards) = opts.shard();
  let n = if opts.thorough { 4000 } else { 120 };
  let steps = if opts.thorough { 6000 } else { 2500 };
  let mut rng = Rng::new(opts.seed ^ 0xc04c04);
  for idx in 0..n {
    let seed = rng.next();
    if idx % nshards != shard { continue; }
    run_one(seed, steps, false, w);
  }
}
