//! One-instruction CPU cases on the real interpreter and bus, shared by the c05 / c06 streams.
//! line: <stream> cfg=T,R,M banks= ramb= b=<b0,b1,b2> regs=af,bc,de,hl,sp,ip pre=a:v;... rompatch=i:v;... probes=a,a,...
//!       | regs=af,bc,de,hl,sp,ip cy= st= be= pv=v,v,... small=<digest> died=<0|1>
use crate::cpu::Registers;
use crate::interpreter;
use crate::mem::{memory_read_byte, memory_write_byte, MemoryAreas};
use crate::roms::*;
use crate::util::Rng;
use std::io::Write;

pub struct Case {
  pub cfg: (u8, u8, u8),
  pub regs: [u32; 6],            // af bc de hl sp ip
  pub pre: Vec<(u16, u8)>,       // bus writes before the instruction (RAM/IO set-up, also places code in RAM)
  pub rompatch: Vec<(usize, u8)>,// direct ROM image patches (global index)
  pub probes: Vec<u16>,
  pub bytes: [u8; 3],
}

pub fn small_digest(p: *mut MemoryAreas) -> u64 {
  // OAM, unused, I/O, HRAM, IE
  let mut h = FNV0;
  for a in 0xfe00u32..0x10000 { h = fnv(h, memory_read_byte(p, a as u16)); }
  h
}

pub fn run_case(stream: &str, c: &Case, w: &mut dyn Write) {
  let (t, r, m) = c.cfg;
  let mut mem = mk_mem(t, r, m, &[]);
  for (i, v) in c.rompatch.iter() { if *i < mem.rom.len() { mem.rom[*i] = *v; } }
  let p = &mut mem as *mut MemoryAreas;
  for (a, v) in c.pre.iter() { memory_write_byte(p, *a, *v); }
  let mut regs = Registers::new();
  regs.af = c.regs[0]; regs.bc = c.regs[1]; regs.de = c.regs[2]; regs.hl = c.regs[3]; regs.sp = c.regs[4]; regs.ip = c.regs[5];
  // expected panics (undefined opcodes) are observations, not noise
  std::panic::set_hook(Box::new(|_| {}));
  let res = std::panic::catch_unwind(std::panic::AssertUnwindSafe(|| interpreter::run_next_op(&mut regs, p)));
  let (st, be, died) = match res {
    Ok(Some((s, b))) => (s as u32, b as u32, 0),
    Ok(None) => (99, 0, 0),
    Err(_) => (0, 0, 1),
  };
  let pv: Vec<String> = c.probes.iter().map(|a| memory_read_byte(p, *a).to_string()).collect();
  let pre: Vec<String> = c.pre.iter().map(|(a, v)| format!("{}:{}", a, v)).collect();
  let rp: Vec<String> = c.rompatch.iter().map(|(a, v)| format!("{}:{}", a, v)).collect();
  let pr: Vec<String> = c.probes.iter().map(|a| a.to_string()).collect();
  let (af, bc, de, hl, sp, ip, cy) = (regs.af, regs.bc, regs.de, regs.hl, regs.sp, regs.ip, regs.cycles);
  writeln!(w, "{} cfg={},{},{} banks={} ramb={} b={},{},{} regs={},{},{},{},{},{} pre={} rompatch={} probes={} | regs={},{},{},{},{},{} cy={} st={} be={} pv={} small={} died={}",
    stream, t, r, m, rom_bank_count(r), header(t, r, m).get_ram_size_bytes(), c.bytes[0], c.bytes[1], c.bytes[2],
    c.regs[0], c.regs[1], c.regs[2], c.regs[3], c.regs[4], c.regs[5], pre.join(";"), rp.join(";"), pr.join(","),
    af, bc, de, hl, sp, ip, cy, st, be, pv.join(","), small_digest(p), died).unwrap();
}

pub const PTRS: [u16; 40] = [
  0x0000, 0x0001, 0x3fff, 0x4000, 0x7fff, 0x8000, 0x8001, 0x9fff, 0xa000, 0xbfff, 0xc000, 0xc001, 0xcfff, 0xd000, 0xdfff,
  0xe000, 0xfdff, 0xfe00, 0xfe9f, 0xfea0, 0xfeff, 0xff00, 0xff01, 0xff02, 0xff04, 0xff05, 0xff07, 0xff0f, 0xff40,
  0xff41, 0xff45, 0xff46, 0xff7f, 0xff80, 0xff81, 0xffc6, 0xfffd, 0xfffe, 0xffff, 0xc800,
];

pub fn ptr(rng: &mut Rng) -> u16 {
  match rng.below(4) { 0 => *rng.pick(&PTRS), 1 => 0xc000 + rng.below(0x2000) as u16, 2 => 0x8000 + rng.below(0x8000) as u16, _ => rng.u16() }
}

pub fn byte(rng: &mut Rng) -> u8 {
  match rng.below(4) { 0 => *rng.pick(&[0u8, 1, 0x0f, 0x10, 0x7f, 0x80, 0x99, 0x9a, 0xf0, 0xfe, 0xff, 0x09, 0x0a, 0x90, 0xa0]), _ => rng.u8() }
}

/// a generated state for one encoding: code placed at `ip` through `pre` (RAM) or `rompatch` (ROM)
pub fn gen_case(rng: &mut Rng, bytes: [u8; 3], ip: u16, cfg: (u8, u8, u8)) -> Case {
  let a = byte(rng); let f = (rng.u8() & 0xf0) as u32;
  let af = ((a as u32) << 8) | f;
  let (bc, de, hl, sp) = (ptr(rng), ptr(rng), ptr(rng), ptr(rng));
  let bc = if rng.chance(1, 2) { ((byte(rng) as u16) << 8) | byte(rng) as u16 } else { bc };
  let de = if rng.chance(1, 2) { ((byte(rng) as u16) << 8) | byte(rng) as u16 } else { de };
  let mut pre: Vec<(u16, u8)> = Vec::new();
  let mut probes: Vec<u16> = Vec::new();
  let nn = (bytes[1] as u16) | ((bytes[2] as u16) << 8);
  for base in [hl, bc, de, sp, sp.wrapping_add(1), sp.wrapping_sub(1), sp.wrapping_sub(2), 0xff00 | (bc & 0xff), 0xff00 | bytes[1] as u16, nn, nn.wrapping_add(1)] {
    if base >= 0x8000 && !(0xff00..0xff80).contains(&base) && base != 0xffff { pre.push((base, byte(rng))); }
    probes.push(base);
  }
  // some I/O state so that pointer accesses into the register file see something
  if rng.chance(1, 4) { pre.push((0xffff, rng.u8())); pre.push((0xff0f, rng.u8())); pre.push((0xff45, rng.u8())); }
  let mut rompatch = Vec::new();
  let banks = rom_bank_count(cfg.1);
  for k in 0..3u16 {
    let a = ip.wrapping_add(k);
    if a >= 0x8000 { pre.push((a, bytes[k as usize])); }
    else if a < 0x4000 { rompatch.push((a as usize, bytes[k as usize])); }
    else { rompatch.push((0x4000 * (1 % banks) + (a as usize & 0x3fff), bytes[k as usize])); }
  }
  Case { cfg, regs: [af, bc as u32, de as u32, hl as u32, sp as u32, ip as u32], pre, rompatch, probes, bytes }
}
