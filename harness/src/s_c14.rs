//! C14: LCD line/mode schedule.  The real `VideoState` (and, for `c14.io`, the real `IO`) is driven
//! through its public API only: power-on, one STAT write, one LYC write, then a list of
//! `run_clock_cycles` batches (multiples of 4 clocks), observing LY, STAT and the returned
//! interrupt flags after every batch.
//!
//! c14.edge | c14.step | c14.run | c14.io :
//!   c14.<sub> stat=<n> lyc=<n> sc=<scene: 0 empty, 1 / 2 a picture with objects on> b=<list> | w=<4 hex: flags of the STAT write, of the LYC write> o=<6 hex per batch: LY STAT flags>
//! c14.part (the same elapsed time under two partitions):
//!   c14.part stat=<n> lyc=<n> a=<list> b=<list> | oa=<6 hex: final LY, final STAT, OR of all flags> ob=<6 hex>
//! <list> = comma separated items `N` (one batch of N clocks) or `NxM` (M batches of N clocks).
use crate::devices::io::IO;
use crate::devices::video::VideoState;
use crate::timing::ClockCycles;
use crate::util::{Opts, Rng};
use std::io::Write;

const FRAME: usize = 70224;
const LYCS: [u8; 9] = [0, 1, 2, 143, 144, 145, 153, 154, 255];

/// one list item: `n` clocks, repeated `m` times
type Item = (usize, usize);

fn list_str(items: &[Item]) -> String {
  let mut s = String::new();
  for (i, (n, m)) in items.iter().enumerate() {
    if i > 0 { s.push(','); }
    if *m == 1 { s.push_str(&format!("{}", n)); } else { s.push_str(&format!("{}x{}", n, m)); }
  }
  s
}

fn parse_list(s: &str) -> Vec<Item> {
  s.split(',').filter(|t| !t.is_empty()).map(|t| {
    let mut it = t.split('x');
    let n = it.next().unwrap().parse().unwrap();
    let m = it.next().map(|x| x.parse().unwrap()).unwrap_or(1);
    (n, m)
  }).collect()
}

fn total(items: &[Item]) -> usize { items.iter().map(|(n, m)| n * m).sum() }

fn push_obs(o: &mut String, ly: u8, st: u8, fl: u8) {
  o.push_str(&format!("{:02x}{:02x}{:02x}", ly, st, fl));
}

/// drive `VideoState` directly; returns (w, o)
/// scene 0: empty VRAM and OAM, LCDC as at power-on.  scene 1: a picture - pattern tiles, forty objects spread over the
/// screen (up to ten and more on a line), LCDC = 0x93 or 0x97 (objects on, 8x8 / 8x16).  The schedule does not look at the picture.
fn scene(sc: u8) -> (Box<[u8]>, Box<[u8]>, Option<u8>) {
  if sc == 0 { return (vec![0u8; 0x2000].into_boxed_slice(), vec![0u8; 0xa0].into_boxed_slice(), None); }
  let vram: Vec<u8> = (0..0x2000usize).map(|i| crate::roms::rom_byte(i + 77)).collect();
  let mut oam = vec![0u8; 0xa0];
  for k in 0..40usize {
    oam[4 * k] = (16 + (k * 37) % 150) as u8;
    oam[4 * k + 1] = (8 + (k * 11) % 160) as u8;
    oam[4 * k + 2] = crate::roms::rom_byte(k + 5);
    oam[4 * k + 3] = crate::roms::rom_byte(k + 905) & 0xf0;
  }
  // a crowded band: fourteen objects on lines 60..67
  for k in 0..14usize { oam[4 * k] = 76; }
  (vram.into_boxed_slice(), oam.into_boxed_slice(), Some(if sc == 1 { 0x93 } else { 0x97 }))
}

fn drive_video(stat: u8, lyc: u8, sc: u8, items: &[Item], every: bool) -> (String, String) {
  let (vram, oam, lcdc) = scene(sc);
  let mut v = VideoState::new();
  if let Some(c) = lcdc { v.set_lcd_control(c); }
  let w1 = v.set_lcd_status(stat).as_u8();
  let w2 = v.set_ly_compare(lyc).as_u8();
  let mut o = String::new();
  let mut acc = 0u8;
  for (n, m) in items {
    for _ in 0..*m {
      let fl = v.run_clock_cycles(ClockCycles(*n), &vram, &oam).as_u8();
      acc |= fl;
      if every { push_obs(&mut o, v.get_ly(), v.get_lcd_status(), fl); }
    }
  }
  if !every {
    // `get_current_mode` must agree with STAT bits 0..1; fold a disagreement into the flag byte
    let st = v.get_lcd_status();
    let bad = if v.get_current_mode() != st & 3 { 0x80 } else { 0 };
    push_obs(&mut o, v.get_ly(), st, acc | bad);
  }
  (format!("{:02x}{:02x}", w1, w2), o)
}

/// the same through the I/O register file: FF41/FF45 writes, FF44/FF41 reads, IF bits 0..1
fn drive_io(stat: u8, lyc: u8, sc: u8, items: &[Item]) -> (String, String) {
  let (vram, oam, lcdc) = scene(sc);
  let mut io = IO::new();
  if let Some(c) = lcdc { io.set_byte(0xff40, c); }
  io.set_byte(0xff0f, 0);
  io.set_byte(0xff41, stat);
  let w1 = io.get_byte(0xff0f) & 0x1b;
  io.set_byte(0xff0f, 0);
  io.set_byte(0xff45, lyc);
  let w2 = io.get_byte(0xff0f) & 0x1b;
  io.set_byte(0xff0f, 0);
  let mut o = String::new();
  for (n, m) in items {
    for _ in 0..*m {
      io.run_clock_cycles(ClockCycles(*n), &vram, &oam);
      // bit 2 is the timer's, not the LCD's
      let fl = io.get_byte(0xff0f) & 0x1b;
      io.set_byte(0xff0f, 0);
      push_obs(&mut o, io.get_byte(0xff44), io.get_byte(0xff41), fl);
    }
  }
  (format!("{:02x}{:02x}", w1, w2), o)
}

fn emit(sub: &str, stat: u8, lyc: u8, sc: u8, items: &[Item], w: &mut dyn Write) {
  let (ws, o) = if sub == "io" { drive_io(stat, lyc, sc, items) } else { drive_video(stat, lyc, sc, items, true) };
  writeln!(w, "c14.{} stat={} lyc={} sc={} b={} | w={} o={}", sub, stat, lyc, sc, list_str(items), ws, o).unwrap();
}

fn emit_part(stat: u8, lyc: u8, sc: u8, a: &[Item], b: &[Item], w: &mut dyn Write) {
  let (_, oa) = drive_video(stat, lyc, sc, a, false);
  let (_, ob) = drive_video(stat, lyc, sc, b, false);
  writeln!(w, "c14.part stat={} lyc={} sc={} a={} b={} | oa={} ob={}", stat, lyc, sc, list_str(a), list_str(b), oa, ob).unwrap();
}

/// a random partition of at least `min_total` clocks into multiples of 4
fn gen_partition(rng: &mut Rng, min_total: usize, style: u64) -> Vec<Item> {
  const PICKS: [usize; 16] = [4, 8, 76, 80, 84, 184, 188, 192, 268, 452, 456, 460, 4560, 65664, 70220, 70224];
  let mut items: Vec<Item> = Vec::new();
  let mut t = 0usize;
  while t < min_total {
    let n = match style {
      0 => 4 * (1 + rng.below(6) as usize),                 // instruction sized: 4..24
      1 => 4 * (1 + rng.below(16) as usize),                // 4..64
      2 => 4 * (1 + rng.below(500) as usize),               // up to ~4 lines
      3 => {                                                // around whole lines
        let k = 1 + rng.below(12) as usize;
        (456 * k + 4 * rng.below(3) as usize).saturating_sub(4).max(4)
      },
      4 => 4 * (1 + rng.below(2 * FRAME as u64 / 4) as usize), // up to two frames
      5 => *rng.pick(&PICKS),
      6 => FRAME * (1 + rng.below(3) as usize) + 4 * rng.below(3) as usize - 4, // around whole frames
      _ => match rng.below(4) {                             // mixture
        0 => 4 * (1 + rng.below(6) as usize),
        1 => 4 * (1 + rng.below(500) as usize),
        2 => *rng.pick(&PICKS),
        _ => 4 * (1 + rng.below(FRAME as u64 / 2) as usize),
      },
    };
    // merge equal neighbours into NxM
    match items.last_mut() {
      Some((pn, pm)) if *pn == n => *pm += 1,
      _ => items.push((n, 1)),
    }
    t += n;
  }
  items
}

/// a random partition of exactly `tot` clocks (`tot` a multiple of 4)
fn gen_exact(rng: &mut Rng, tot: usize, style: u64) -> Vec<Item> {
  let mut items = gen_partition(rng, tot, style);
  // trim the overshoot from the end
  let mut over = total(&items) - tot;
  while over > 0 {
    let (n, m) = items.pop().unwrap();
    if m > 1 { items.push((n, m - 1)); }
    if n > over { items.push((n - over, 1)); over = 0; } else { over -= n; }
  }
  items
}

fn case_rng(opts: &Opts, sub_id: u64, i: usize) -> Rng {
  Rng::new(opts.seed.wrapping_mul(0x1000193).wrapping_add((i as u64) << 3).wrapping_add(sub_id))
}

fn pick_regs(rng: &mut Rng, i: usize) -> (u8, u8) {
  let mask = (i % 16) as u8;
  let j = (i / 16) % 10;
  let lyc = if j < 9 { LYCS[j] } else { rng.u8() };
  // bits 7, 2..0 of a STAT write are not stored; set them at random in half of the cases
  let junk = if rng.chance(1, 2) { rng.u8() & 0x87 } else { 0 };
  ((mask << 3) | junk, lyc)
}

fn find<'a>(line: &'a str, key: &str) -> Option<&'a str> {
  line.split(' ').take_while(|t| *t != "|").find_map(|t| t.strip_prefix(key).and_then(|r| r.strip_prefix('=')))
}

fn replay(sub: &str, line: &str, w: &mut dyn Write) {
  let stat: u8 = find(line, "stat").and_then(|s| s.parse().ok()).expect("stat=");
  let lyc: u8 = find(line, "lyc").and_then(|s| s.parse().ok()).expect("lyc=");
  let sc: u8 = find(line, "sc").and_then(|s| s.parse().ok()).unwrap_or(0);
  let b = parse_list(find(line, "b").expect("b="));
  if sub == "part" {
    let a = parse_list(find(line, "a").expect("a="));
    emit_part(stat, lyc, sc, &a, &b, w);
  } else {
    emit(sub, stat, lyc, sc, &b, w);
  }
}

pub fn run(sub: &str, opts: &Opts, w: &mut dyn Write) {
  if let Some(line) = opts.get("replay-line") {
    replay(sub, line, w);
    return;
  }
  let (si, sn) = opts.shard();
  match sub {
    // short cases: jump to 8 clocks before each schedule boundary of interest, then four single ticks
    "edge" => {
      let lycs: Vec<u8> = if opts.thorough { (0..=255u8).collect() } else { LYCS.to_vec() };
      let l0 = 4560usize; // first clock of line 0
      let bounds = [456, 4104, l0, l0 + 80, l0 + 268, l0 + 456, l0 + 456 + 80, l0 + 2 * 456, l0 + 142 * 456 + 268,
        l0 + 143 * 456, l0 + 143 * 456 + 80, l0 + 143 * 456 + 268, FRAME, FRAME + 456, FRAME + l0, 2 * FRAME, 2 * FRAME + l0];
      let mut items: Vec<Item> = Vec::new();
      let mut t = 0usize;
      for b in bounds {
        items.push((b - 8 - t, 1));
        items.push((4, 4));
        t = b + 8;
      }
      let mut i = 0usize;
      for lyc in lycs { for mask in 0..16u8 {
        if i % sn == si { emit("edge", mask << 3, lyc, (i % 3) as u8, &items, w); }
        i += 1;
      }}
    },
    // every single 4-clock tick of more than one frame (quick) / three frames (thorough),
    // all 16 enable masks x the LYC boundary set (quick) / all 256 LYC values (thorough)
    "step" => {
      let lycs: Vec<u8> = if opts.thorough { (0..=255u8).collect() } else { LYCS.to_vec() };
      let ticks = if opts.thorough { 3 * FRAME / 4 + 120 } else { FRAME / 4 + 240 };
      let mut i = 0usize;
      for lyc in lycs { for mask in 0..16u8 {
        if i % sn == si { emit("step", mask << 3, lyc, ((i / 3) % 3) as u8, &[(4, ticks)], w); }
        i += 1;
      }}
    },
    // random partitions of at least three frames
    "run" | "io" => {
      let n = match (sub, opts.thorough) {
        ("run", false) => 1600, ("run", true) => 160_000,
        (_, false) => 160, (_, true) => 8_000,
      };
      let sub_id = if sub == "run" { 1 } else { 2 };
      for i in 0..n {
        if i % sn != si { continue; }
        let mut rng = case_rng(opts, sub_id, i);
        let (stat, lyc) = pick_regs(&mut rng, i);
        // instruction-sized batches make long lines; keep them to 1 case in 8
        let style = match rng.below(16) { 0 | 1 => 0, 2 | 3 => 1, 4 | 5 | 6 => 2, 7 | 8 => 3, 9 | 10 => 4, 11 | 12 => 5, 13 => 6, _ => 7 };
        let min_total = 3 * FRAME + 4 * rng.below(FRAME as u64 / 4) as usize;
        let items = gen_partition(&mut rng, min_total, style);
        emit(sub, stat, lyc, (i % 3) as u8, &items, w);
      }
    },
    // the same elapsed time, two partitions
    "part" => {
      let n = if opts.thorough { 32_000 } else { 320 };
      for i in 0..n {
        if i % sn != si { continue; }
        let mut rng = case_rng(opts, 3, i);
        let (stat, lyc) = pick_regs(&mut rng, i);
        let tot = 3 * FRAME + 4 * rng.below(FRAME as u64 / 4) as usize;
        let sa = 1 + rng.below(7);
        let a = gen_exact(&mut rng, tot, sa);
        // the second partition: one single call in a quarter of the cases
        let b = if rng.chance(1, 4) { vec![(tot, 1)] } else { let sb = 1 + rng.below(7); gen_exact(&mut rng, tot, sb) };
        emit_part(stat, lyc, (i % 3) as u8, &a, &b, w);
      }
    },
    _ => {
      eprintln!("unknown stream c14.{}", sub);
      std::process::exit(2);
    }
  }
}
